package scen

import (
	"fmt"
	"os"
	"syscall"

	"verifsim/kernel"
)

// Scenario is one property's generator + workload + oracle.
type Scenario struct {
	ID    string
	Batch bool // several runs per process allowed (no immortal goroutines)
	Run   func(s *kernel.Sim)
}

var registry = map[string]*Scenario{}

func register(sc *Scenario) { registry[sc.ID] = sc }

var tmpDirs []string

// runTmp returns a fresh per-run temporary directory (outside /repo, /verif).
func runTmp(s *kernel.Sim) string {
	base := os.Getenv("VERIF_TMP")
	if base == "" {
		base = os.TempDir()
	}
	d, err := os.MkdirTemp(base, fmt.Sprintf("run-%s-%d-", s.Scenario, s.Seed))
	if err != nil {
		fmt.Fprintln(os.Stderr, "cannot create temp dir:", err)
		syscall.Exit(2)
	}
	tmpDirs = append(tmpDirs, d)
	return d
}

func cleanupTmp() {
	for _, d := range tmpDirs {
		os.RemoveAll(d)
	}
	tmpDirs = nil
}
