package scen

import (
	"fmt"
	"sort"
	"time"

	"lunar/engine/utils/limit"
	"lunar/toolkit-core/clock"
	"lunar/toolkit-core/logging"

	"verifsim/kernel"
)

// C18Q - the rate-limit state of the strategy-based throttling remedy is read for
// the quota gauge (Counters, the body of the metrics callback) while transactions
// increment it. Requests of known and of never-seen (remedy, group) pairs and gauge
// reads are tasks interleaved at the lock sites of the state; a read may fall
// between the publication of a new pair's state and that pair's first increment.
// Every operation returns, no operation panics, a read changes nothing: each pair's
// final count is the number of requests that were let through, every read lies
// between what had been let through when it began and when it ended.
// DESIGN.md section 4, C18.

func init() { register(&Scenario{ID: "C18Q", Batch: true, Run: runC18Q}) }

func runC18Q(s *kernel.Sim) {
	tp := s.Tape
	W := time.Duration([]int{1, 5, 60}[tp.Choose(3)]) * time.Second
	allowed := int64(tp.Range(1, 4))
	nGroups := tp.Range(1, 4)
	nRounds := tp.Range(2, 5)
	siteOn, density := lockSites(tp)
	s.Knobs["window"], s.Knobs["allowed"], s.Knobs["groups"], s.Knobs["rounds"], s.Knobs["lock_sites"] = W.String(), allowed, nGroups, nRounds, density
	s.LogEngineEvents = false
	state := limit.NewRateLimitState(clock.NewRealClock(), logging.ContextLogger{})
	wd := limit.WindowData{WindowSize: W, AllowedRequestCount: allowed, QuotaAllocationRatio: 1}
	s.YieldOn = func(point string, a []string, harness bool) bool {
		return harness && isLockPoint(point) && siteOn(a[0])
	}
	key := func(g int) limit.RequestArguments {
		return limit.RequestArguments{LimiterID: "remedy", Grouping: limit.Grouped, GroupID: fmt.Sprintf("g%d", g)}
	}
	passed := map[limit.RequestArguments]int64{} // let through in the current window, by completed requests
	type read struct {
		before, after map[limit.RequestArguments]int64
		got           map[limit.RequestArguments]int64
	}
	snapshot := func() map[limit.RequestArguments]int64 {
		c := map[limit.RequestArguments]int64{}
		for k, v := range passed {
			c[k] = v
		}
		return c
	}
	n := 0
	for round := 0; round < nRounds && !s.Failed(); round++ {
		// every round lies inside one window of the grid: start it just after a boundary
		now := s.Now()
		if round > 0 || tp.Chance(1, 2) {
			s.SleepUntil((now/W+1)*W + time.Duration(1+tp.Choose(100))*time.Millisecond)
			passed = map[limit.RequestArguments]int64{}
		}
		k := tp.Range(2, 5)
		var reads []*read
		var tasks []*kernel.Task
		for i := 0; i < k; i++ {
			n++
			name := fmt.Sprintf("op%d", n)
			if tp.Chance(1, 3) {
				r := &read{}
				reads = append(reads, r)
				s.FaultFired("quota_gauge_read_while_requests_run")
				tasks = append(tasks, s.Spawn(name, func() {
					defer func() {
						if p := recover(); p != nil {
							s.Violate("R1", "gauge-read-panicked", "Counters() (the quota gauge callback) panicked while requests were running: %v", p)
						}
					}()
					r.before = snapshot()
					r.got = state.Counters()
					r.after = snapshot()
				}))
				continue
			}
			kk := key(tp.Choose(nGroups))
			tasks = append(tasks, s.Spawn(name, func() {
				defer func() {
					if p := recover(); p != nil {
						s.Violate("R1", "request-panicked", "TryToIncrement panicked: %v", p)
					}
				}()
				st, err := state.TryToIncrement(kk, wd)
				if err != nil {
					s.Violate("R1", "request-error", "TryToIncrement: %v", err)
					return
				}
				if st.LimitSate == limit.Proceed {
					passed[kk]++
				}
			}))
		}
		for steps := 0; steps < 2000; steps++ {
			p := s.ParkedTasks()
			if len(p) == 0 {
				break
			}
			s.Resume(p[tp.Choose(len(p))])
		}
		for _, t := range tasks {
			if !t.Done() && !s.Failed() {
				s.Violate("R1", "operation-never-returned", "an operation of round %d has not returned", round)
			}
		}
		if s.Failed() {
			return
		}
		s.Nontrivial()
		s.Rule("R1")
		s.Rule("R2")
		// what passed is within the limit, and the final gauge shows exactly that
		final := state.Counters()
		var keys []string
		byName := map[string]limit.RequestArguments{}
		for kk := range passed {
			keys = append(keys, kk.GroupID)
			byName[kk.GroupID] = kk
		}
		sort.Strings(keys)
		for _, g := range keys {
			kk := byName[g]
			if passed[kk] > allowed {
				s.Violate("R2", "more-than-allowed-passed", "group %s: %d requests passed in one window, allowed %d", g, passed[kk], allowed)
			}
			if final[kk] != passed[kk] {
				s.Violate("R2", "gauge-differs-from-passed", "group %s: the gauge reads %d after the round, %d requests were let through in this window", g, final[kk], passed[kk])
			}
		}
		for _, r := range reads {
			if r.got == nil {
				continue
			}
			for _, g := range keys {
				kk := byName[g]
				// requests in flight during the read may or may not be in it
				if r.got[kk] < r.before[kk] || r.got[kk] > passed[kk] {
					s.Violate("R2", "gauge-read-out-of-range", "group %s: a read that began when %d had passed and ended when %d had passed (round total %d) returned %d", g, r.before[kk], r.after[kk], passed[kk], r.got[kk])
				}
			}
		}
		s.State(fmt.Sprintf("g%d/r%d", len(keys), len(reads)))
	}
}
