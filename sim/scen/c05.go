package scen

import (
	"fmt"
	"os"
	"runtime/debug"
	"strings"

	"lunar/engine/routing"
	"lunar/engine/streams"
	"lunar/engine/streams/validation"

	"github.com/negasus/haproxy-spoe-go/message"
	"github.com/negasus/haproxy-spoe-go/payload/kv"

	"verifsim/kernel"
)

// C05 — every configuration the loader accepts runs safely on all traffic.
// One OS process per configuration: a fatal stack overflow or a panic of the
// engine is an observable exit status of the run. Arbitrary (not well-formed)
// small graphs: self-loops, cycles under one condition, cycles in root-less
// response directions, dangling names, duplicate keys, missing parameters;
// quota files with the usual mistakes. DESIGN.md section 4, C05.

func init() { register(&Scenario{ID: "C05", Run: runC05}) }

const c05Budget = 1000 // processor executions per transaction side

type c05budgetExceeded struct{ n int }

func runC05(s *kernel.Sim) {
	tp := s.Tape
	debug.SetMaxStack(64 << 20)
	s.LogEngineEvents = false
	// ---- generate ----
	f := genC04Flow(tp, "f0") // a well-formed skeleton ...
	arbitrary := tp.Chance(2, 5)
	if arbitrary { // ... or nothing but noise
		f.req, f.resp = nil, nil
	}
	names := []string{}
	for i := 1; i <= f.nReq; i++ {
		names = append(names, fmt.Sprintf("p%d", i))
	}
	for i := 1; i <= f.nGen; i++ {
		names = append(names, fmt.Sprintf("g%d", i))
	}
	for i := 1; i <= f.nResp; i++ {
		names = append(names, fmt.Sprintf("r%d", i))
	}
	endpoints := append(append([]string{}, names...), "", "", "zz") // "" = stream, zz = undeclared
	conds := []string{"hit", "miss", "", "bogus"}
	// half of the runs add only *plausible* extra connections (declared
	// processors, valid conditions): back edges, self-loops, cycles under one
	// condition, cycles in a root-less response direction
	plausible := !arbitrary && tp.Chance(2, 3)
	nExtra := tp.Range(0, 5)
	if arbitrary {
		nExtra = tp.Range(1, 8)
	}
	if plausible {
		nExtra = 1 + tp.Weighted([]int{4, 1, 1}) // mostly exactly one extra edge: the accepted ones are the interesting ones
	}
	var mutations []string
	for i := 0; i < nExtra; i++ {
		var c c04conn
		inResp := tp.Chance(1, 2)
		if plausible {
			inResp = tp.Chance(2, 3) // the response direction has the weaker entry rules (early-response connections, no root)
			var pool []string
			for _, n := range names {
				isResp := strings.HasPrefix(n, "r")
				if isResp == inResp {
					pool = append(pool, n)
				}
			}
			if inResp {
				for j := 1; j <= f.nGen; j++ {
					pool = append(pool, fmt.Sprintf("g%d", j))
				}
				if tp.Chance(1, 3) { // the same processor key may be wired in both directions
					for j := 1; j <= f.nReq; j++ {
						pool = append(pool, fmt.Sprintf("p%d", j))
					}
				}
			}
			if len(pool) == 0 {
				continue
			}
			c = c04conn{from: pool[tp.Choose(len(pool))], to: pool[tp.Choose(len(pool))]}
			if inResp && tp.Chance(1, 2) {
				// prefer the processors an early response continues with: they are
				// entered without passing the root of the response direction
				var cont []string
				for _, e := range f.resp {
					if strings.HasPrefix(e.from, "g") && e.to != "" {
						cont = append(cont, e.to)
					}
				}
				if len(cont) > 0 {
					c.from = cont[tp.Choose(len(cont))]
					if tp.Chance(1, 2) {
						c.to = c.from
					}
				}
			}
			if strings.HasPrefix(c.to, "g") && inResp {
				c.to = ""
			}
			if !strings.HasPrefix(c.from, "g") {
				c.cond = conds[tp.Choose(2)]
			}
		} else {
			c = c04conn{from: endpoints[tp.Choose(len(endpoints))], to: endpoints[tp.Choose(len(endpoints))]}
			if c.from != "" {
				c.cond = conds[tp.Weighted([]int{4, 4, 2, 1})]
				if strings.HasPrefix(c.from, "g") {
					c.cond = ""
				}
			}
		}
		if !inResp {
			f.req = append(f.req, c)
			mutations = append(mutations, fmt.Sprintf("req%v", c))
		} else {
			f.resp = append(f.resp, c)
			mutations = append(mutations, fmt.Sprintf("resp%v", c))
		}
	}
	if plausible && f.nReq >= 2 && tp.Chance(1, 5) {
		// a loop in the response direction over processor keys that the request
		// direction also uses (there without a loop), entered from the response root,
		// a response processor or an early-response connection
		a := fmt.Sprintf("p%d", 1+tp.Choose(f.nReq))
		b := fmt.Sprintf("p%d", 1+tp.Choose(f.nReq))
		entry := c04conn{to: a}
		switch tp.Choose(3) {
		case 1:
			if f.nResp > 0 {
				entry.from, entry.cond = "r1", conds[tp.Choose(2)]
			}
		case 2:
			if f.nGen > 0 {
				entry.from = "g1"
			}
		}
		loop := []c04conn{entry, {from: a, cond: conds[tp.Choose(2)], to: b}, {from: b, cond: conds[tp.Choose(2)], to: a}}
		f.resp = append(f.resp, loop...)
		mutations = append(mutations, fmt.Sprintf("resp-loop-over-request-keys%v", loop))
	}
	needF1 := false // a reference made on purpose to the second flow: that flow is loaded then
	if tp.Chance(1, 3) {
		// references to flows: to itself, to the second flow (when there is one), to a
		// flow that does not exist; as the start of the request direction or as the
		// target of a response connection, as in the shipped samples - or anywhere
		refs := []string{"f0", "f1", "ghost"}
		for k := tp.Range(1, 2); k > 0; k-- {
			ref := refs[tp.Choose(3)]
			var c c04conn
			inResp := tp.Chance(1, 2)
			pool := names
			if len(pool) == 0 {
				break
			}
			n := pool[tp.Choose(len(pool))]
			switch tp.Choose(4) {
			case 3: // a request processor hands over to the second flow's start (that flow's end leads back here)
				ref, inResp, needF1 = "f1", false, true
				c = c04conn{from: n, cond: conds[tp.Choose(2)], toFlow: "f1@start"}
			case 0: // sample shape
				if inResp {
					c = c04conn{from: n, toFlow: ref + "@start"}
				} else {
					c = c04conn{fromFlow: ref + "@end", to: n}
				}
			case 1:
				c = c04conn{fromFlow: ref + "@" + []string{"start", "end"}[tp.Choose(2)], to: n}
			default:
				c = c04conn{from: n, cond: conds[tp.Choose(2)], toFlow: ref + "@" + []string{"start", "end"}[tp.Choose(2)]}
			}
			if inResp {
				f.resp = append(f.resp, c)
			} else {
				f.req = append(f.req, c)
			}
			mutations = append(mutations, fmt.Sprintf("flow-reference:%v:resp=%v", c, inResp))
		}
	}
	flowURL := []string{"a.com/c", "a.com/c", "a.com/c/*"}[tp.Choose(3)] // exact, or everything below it
	s.Knobs["flow_url"] = flowURL
	fd := f.def(flowURL)
	// the flow's own filter may carry method, header, query and status constraints
	// (the status constraint is consulted on the response side, also on the response
	// path that follows an early response; query constraints parse the request URL)
	addFilter := func(d *flowDef, tag string) {
		if !tp.Chance(1, 3) {
			return
		}
		switch tp.Choose(4) {
		case 0:
			d.Status = [][]int{{200}, {500, 503}, {429}}[tp.Choose(3)]
		case 1:
			d.Methods = [][]string{{"GET"}, {"POST"}}[tp.Choose(2)]
		case 2:
			d.Headers = [][2]string{{"x-h", "v1"}}
		case 3:
			d.Query = [][2]string{{"x", []string{"1", "*"}[tp.Choose(2)]}}
		}
		mutations = append(mutations, fmt.Sprintf("%s-filter:status=%v,methods=%v,headers=%v,query=%v", tag, d.Status, d.Methods, d.Headers, d.Query))
	}
	addFilter(&fd, "f0")
	// parameters of a Filter processor that the loader does not look into: URL
	// patterns that are no regular expressions, odd status ranges, methods, bodies
	// (a quarter of the runs, one or two processors)
	if tp.Chance(1, 4) {
		menu := [][2]string{{"url", "a.com/(v1"}, {"url", "["}, {"url", "a.com/c/*"}, {"url", "a.com/c/{id}"}, {"endpoint", "/c/(x"}, {"endpoint", "*"},
			{"method", "GET"}, {"method", ""}, {"body", "(unclosed"}, {"body", "card"}, {"status_code_range", "200-299"}, {"status_code_range", "500-"},
			// list- and map-valued parameters whose elements are not all of one kind
			{"methods", `["GET", 7]`}, {"methods", `[1, "GET"]`}, {"urls", `["a.com/c", 5, 2.5]`}, {"endpoints", `[]`}, {"urls", `[1, 2.5]`},
			{"headers", `{x-a: "1", x-b: [2]}`}, {"headers", `[x-a, 1]`}}
		for k := tp.Range(1, 2); k > 0; k-- {
			i := tp.Choose(len(fd.Procs))
			if fd.Procs[i].Type != "Filter" {
				continue
			}
			kv := menu[tp.Choose(len(menu))]
			fd.Procs[i].Params = append(fd.Procs[i].Params, kv)
			mutations = append(mutations, fmt.Sprintf("filter-processor-param:%s:%s=%q", fd.Procs[i].Key, kv[0], kv[1]))
		}
	}
	// one run in ten: two flows that both look at the query string of every request below a.com/c
	queryBoth := tp.Chance(1, 10)
	if queryBoth {
		fd.Query, fd.URL, flowURL = [][2]string{{"x", "*"}}, "a.com/c/*", "a.com/c/*"
		mutations = append(mutations, "both-flows-filter-on-query-params")
	}
	yaml := fd.YAML()
	// textual mutations of the YAML
	textual := []int{8, 1, 1, 1, 1, 1, 1}
	if plausible {
		textual = []int{1}
	}
	switch tp.Weighted(textual) {
	case 5: // a processor entry whose body was deleted (YAML null)
		yaml = strings.Replace(yaml, "processors:\n", "processors:\n  leftEmpty:\n", 1)
		mutations = append(mutations, "processor-entry-without-body")
	case 6: // a processor entry with an empty mapping, a connection without ends
		yaml = strings.Replace(yaml, "processors:\n", "processors:\n  hollow: {}\n", 1)
		mutations = append(mutations, "processor-entry-empty-mapping")
	case 1: // duplicate processor key
		yaml = strings.Replace(yaml, "processors:\n", "processors:\n  p1:\n    processor: Filter\n    parameters:\n      - key: header\n        value: x-dup=1\n", 1)
		mutations = append(mutations, "duplicate-key-p1")
	case 2: // missing required parameter / unknown processor
		yaml = strings.Replace(yaml, "processor: Filter", "processor: Limiter", 1)
		mutations = append(mutations, "limiter-without-quota")
	case 3: // drop the response section
		if i := strings.Index(yaml, "  response:\n"); i > 0 {
			yaml = yaml[:i]
			mutations = append(mutations, "no-response-section")
		}
	case 4: // duplicate parameter
		yaml = strings.Replace(yaml, "      - key: header\n", "      - key: header\n        value: x-a=1\n      - key: header\n", 1)
		mutations = append(mutations, "duplicate-param")
	}
	files := map[string]string{"flows/f0.yaml": yaml}
	if tp.Chance(1, 3) || queryBoth || needF1 { // a second flow on the same URL, sometimes broken too
		g := genC04Flow(tp, "f1")
		if tp.Chance(1, 3) {
			g.req = append(g.req, c04conn{from: "p1", cond: "hit", to: "p1"})
			mutations = append(mutations, "f1-self-loop")
		}
		gd := g.def(flowURL)
		addFilter(&gd, "f1")
		if queryBoth {
			gd.Query, gd.URL = [][2]string{{"y", "*"}}, "a.com/c/*"
		}
		files["flows/f1.yaml"] = gd.YAML()
	}
	if tp.Chance(1, 4) {
		// a flow whose processor rewrites the body and the headers of the request
		files["flows/fs.yaml"] = flowDef{
			Name: "fs", URL: flowURL,
			Procs: []procDef{{Key: "san", Type: "DataSanitation"}},
			Req:   []connDef{{FromStream: "start", ToProc: "san"}, {FromProc: "san", ToStream: "end"}},
			Resp:  []connDef{{FromStream: "start", ToStream: "end"}},
		}.YAML()
		mutations = append(mutations, "data-sanitation-flow")
	}
	if tp.Chance(1, 8) {
		// two more flows: one hands its request over to a shared flow that lives on
		// another URL (a library flow); the shared flow's end leads back to the flow that
		// referred to it, so this pair goes round in a circle - it has to be refused
		// (one of four variants hands over after the shared flow instead, the ordinary
		// chaining of flows, which is acyclic)
		ha := flowDef{Name: "ha", URL: flowURL,
			Procs: []procDef{{Key: "pa", Type: "DataSanitation"}},
			Req:   []connDef{{FromStream: "start", ToProc: "pa"}, {FromProc: "pa", ToFlow: "hb", ToFlowAt: "start"}},
			Resp:  []connDef{{FromStream: "start", ToStream: "end"}}}
		if tp.Chance(1, 4) {
			ha.Req = []connDef{{FromFlow: "hb", FromFlowAt: "end", ToProc: "pa"}, {FromProc: "pa", ToStream: "end"}}
		}
		files["flows/ha.yaml"] = ha.YAML()
		files["flows/hb.yaml"] = flowDef{Name: "hb", URL: "a.com/shared",
			Procs: []procDef{{Key: "pb", Type: "DataSanitation"}},
			Req:   []connDef{{FromStream: "start", ToProc: "pb"}, {FromProc: "pb", ToStream: "end"}},
			Resp:  []connDef{{FromStream: "start", ToStream: "end"}}}.YAML()
		mutations = append(mutations, "handover-to-a-shared-flow:"+fmt.Sprint(ha.Req))
	}
	quotaW := []int{5, 2, 1, 1, 1, 2, 2, 2}
	if plausible {
		quotaW = []int{3, 1, 0, 0, 0, 1, 1, 1}
	}
	switch tp.Weighted(quotaW) {
	case 1:
		files["quotas/q.yaml"] = strings.ReplaceAll(c08Quota, "a.com/p1", "a.com/c")
	case 2: // quota without filter
		files["quotas/q.yaml"] = "quotas:\n  - id: cq\n    strategy:\n      fixed_window:\n        max: 5\n        interval: 1\n        interval_unit: minute\n"
		mutations = append(mutations, "quota-without-filter")
	case 3: // child without parent
		files["quotas/q.yaml"] = strings.ReplaceAll(c08Quota, "a.com/p1", "a.com/c") + "internal_limits:\n  - id: child\n    parent_id: nobody\n    filter:\n      url: a.com/c\n    strategy:\n      fixed_window:\n        max: 1\n        interval: 1\n        interval_unit: second\n"
		mutations = append(mutations, "child-without-parent")
	case 5: // a hierarchy of internal limits, listed in any order (a child may precede its parent)
		lim := func(id, parent string) string {
			return fmt.Sprintf("  - id: %s\n    parent_id: %s\n    filter:\n      url: a.com/c\n    strategy:\n      fixed_window:\n        max: %d\n        interval: 1\n        interval_unit: minute\n", id, parent, 100+tp.Choose(3))
		}
		ids := []string{"l1", "l2", "l3"}[:tp.Range(1, 3)]
		var lims []string
		for i, id := range ids {
			parent := "cq"
			if i > 0 && tp.Chance(2, 3) {
				parent = ids[tp.Choose(i)] // nested below an earlier-numbered limit
			}
			lims = append(lims, lim(id, parent))
		}
		q := strings.ReplaceAll(c08Quota, "a.com/p1", "a.com/c") + "internal_limits:\n"
		for _, k := range tp.Perm(len(lims)) {
			q += lims[k]
		}
		files["quotas/q.yaml"] = q
		mutations = append(mutations, "internal-limit-hierarchy:"+firstWords(strings.ReplaceAll(q, "\n", " "), 400))
	case 6: // an expression filter on the quota, internal limits with filter blocks of their own
		expr := []string{"$.request.headers.x-h", "$.request.headers.x-f0-p1", "$.response.status", "$.request.method"}[tp.Choose(4)]
		q := "quotas:\n  - id: cq\n    filter:\n      url: a.com/*\n      expressions:\n        - \"" + expr + "\"\n    strategy:\n      fixed_window:\n        max: 1000\n        interval: 1\n        interval_unit: minute\ninternal_limits:\n"
		for i := tp.Range(1, 2); i > 0; i-- {
			own := []string{"      url: a.com/c\n      method: [GET]\n", "      url: a.com/c\n", "      url: a.com/c/*\n      headers:\n        - key: x-h\n          value: v1\n",
				"      url: a.com/c\n      expressions:\n        - \"$.request.headers.x-f0-p2\"\n"}[tp.Choose(4)]
			q += fmt.Sprintf("  - id: l%d\n    parent_id: cq\n    filter:\n%s    strategy:\n      fixed_window:\n        max: 100\n        interval: 1\n        interval_unit: minute\n", i, own)
		}
		files["quotas/q.yaml"] = q
		mutations = append(mutations, "expression-filter-quota:"+firstWords(strings.ReplaceAll(q, "\n", " "), 300))
	case 7: // one field of the quota, or of its internal limit, is wrong or missing
		strat := func(unit, max, interval string) string {
			return "    strategy:\n      fixed_window:\n        max: " + max + "\n        interval: " + interval + "\n        interval_unit: " + unit + "\n"
		}
		damage := [][3]string{{"fortnight", "5", "1"}, {"minute", "-1", "1"}, {"minute", "5", "0"}, {"", "5", "1"}, {"minute", "many", "1"}}[tp.Choose(5)]
		bad := strat(damage[0], damage[1], damage[2])
		switch tp.Choose(4) {
		case 0:
			bad = "" // no strategy at all
		case 1:
			bad = "    strategy:\n" // an empty strategy
		}
		good := strat("minute", "100", "1")
		qs, ls := good, bad
		where := "internal limit"
		if tp.Chance(1, 3) {
			qs, ls, where = bad, good, "quota"
		}
		q := "quotas:\n  - id: cq\n    filter:\n      url: a.com/c\n" + qs + "internal_limits:\n  - id: l1\n    parent_id: cq\n    filter:\n      url: a.com/c\n" + ls
		files["quotas/q.yaml"] = q
		mutations = append(mutations, "quota-field-damaged("+where+"):"+firstWords(strings.ReplaceAll(bad, "\n", " "), 120))
	case 4: // two hosts in two files
		files["quotas/q.yaml"] = strings.ReplaceAll(c08Quota, "a.com/p1", "a.com/c")
		files["quotas/q2.yaml"] = strings.ReplaceAll(strings.ReplaceAll(c08Quota, "cq", "cq2"), "a.com/p1", "a.com/d")
		mutations = append(mutations, "same-host-two-quota-files")
	}
	s.Knobs["arbitrary"], s.Knobs["plausible_extra_connections"], s.Knobs["mutations"] = arbitrary, plausible, mutations
	s.Knobs["flow"] = fmt.Sprintf("req=%v resp=%v", f.req, f.resp)
	s.MixSig(yaml, fmt.Sprint(mutations))

	dir := runTmp(s)
	if err := writeTree(dir, files); err != nil {
		s.HarnessErr = err.Error()
		return
	}
	setEngineEnv(dir)
	// ---- R1: validation returns ----
	s.Rule("R1")
	// the order in which the flows are built is the runtime's map order in production:
	// either one, for the dry run too (a flow that refers to another one needs it built first)
	if _, two := files["flows/f1.yaml"]; two && tp.Chance(1, 2) {
		s.OrderOn = func(point string, have []string) []string {
			if point != "flow.build" {
				return nil
			}
			out := []string{"f1", "f0"}
			for _, n := range sortedCopy(have) {
				if n != "f0" && n != "f1" {
					out = append(out, n)
				}
			}
			return out
		}
		s.Knobs["dry_run_builds_the_second_flow_first"] = true
	}
	var verr error
	if p := guarded(func() { verr = validation.NewValidator().Validate() }); p != "" {
		s.Violate("R1", "validation-panicked", "the dry-run validation panicked: %s; flow req=%v resp=%v mutations=%v", p, f.req, f.resp, mutations)
		return
	}
	s.Event("validation", firstWords(fmt.Sprint(verr), 8))
	if verr != nil {
		s.Probe("rejected")
		s.State("rejected:" + firstWords(verr.Error(), 6))
		return // rejected configurations are fine by definition
	}
	s.Probe("accepted")
	s.Nontrivial()
	// ---- R2: the real load succeeds under every order tried ----
	var st *streams.Stream
	orders := [][]string{{"f0", "f1"}, {"f1", "f0"}}
	for oi, ord := range orders {
		ord := ord
		s.OrderOn = func(point string, have []string) []string {
			if point != "flow.build" {
				return nil
			}
			out := append([]string(nil), ord...)
			for _, n := range sortedCopy(have) {
				if n != "f0" && n != "f1" {
					out = append(out, n)
				}
			}
			return out
		}
		s.Rule("R2")
		var lerr error
		if p := guarded(func() {
			st, lerr = streams.NewStream()
			if lerr == nil {
				lerr = st.Initialize()
			}
		}); p != "" {
			s.Violate("R2", "load-panicked", "the configuration was accepted by validation but loading it panicked (order %v): %s", ord, p)
			return
		}
		if lerr != nil {
			s.Violate("R2", "accepted-but-load-fails", "the configuration was accepted by validation but the real load fails (order %v): %v", ord, lerr)
			return
		}
		if _, two := files["flows/f1.yaml"]; !two && oi == 0 {
			break
		}
	}
	// ---- R3: every transaction finishes within the step budget ----
	count := 0
	s.OnEvent = func(kind string, _ []string) {
		if kind == "proc.executed" {
			count++
			if count > c05Budget {
				panic(c05budgetExceeded{count})
			}
		}
	}
	// transactions enter at the real SPOE entry points of the handler (argument
	// decoding, flow run, conversion of the actions into SPOE actions), on a
	// streams-mode manager built from the same directory
	c08setEnv(dir)
	if m, _ := os.ReadFile("/repo/proxy/metrics.yaml"); true {
		os.WriteFile(os.Getenv("LUNAR_PROXY_METRICS_CONFIG_DEFAULT"), m, 0o644)
		tmpDirs = append(tmpDirs, os.Getenv("LUNAR_PROXY_METRICS_CONFIG_DEFAULT"), os.Getenv("LUNAR_FLOWS_PATH_PARAM_CONFIG"))
	}
	installHAProxy()
	var mgr *routing.HandlingDataManager
	var merr error
	if p := guarded(func() { mgr, merr = routing.NewVerifStreamsManager() }); p != "" {
		s.Violate("R2", "load-panicked", "the configuration was accepted by validation but building the handler's engine panicked: %s", p)
		return
	}
	if merr != nil {
		s.Violate("R2", "accepted-but-load-fails", "the configuration was accepted by validation but the handler cannot load it: %v", merr)
		return
	}
	_ = st
	bodies := []string{"", "{not json", `{"a":1}`, strings.Repeat("x", 70000), `{"email":"john.doe@example.com","card":"4111 1111 1111 1111"}`}
	paths := []string{"/c", "/c", "/c/extra", "", "//", "/c?x=1", "/c/%zz", "/c/100%", "/c\x7f", "/c?x=1&y=%zz"}
	for ti := 0; ti < 10 && !s.Failed(); ti++ {
		hdr := map[string]string{}
		for _, n := range names {
			if tp.Chance(1, 2) {
				hdr["x-f0-"+n] = "1"
				hdr["x-f1-"+n] = "1"
			}
		}
		if tp.Chance(1, 5) {
			hdr["content-encoding"] = "gzip"
		}
		path := paths[tp.Choose(len(paths))]
		query := ""
		if i := strings.IndexByte(path, '?'); i >= 0 {
			path, query = path[:i], path[i+1:]
		}
		body := bodies[tp.Choose(len(bodies))]
		id := fmt.Sprintf("t%d", ti)
		method := []string{"GET", "POST"}[tp.Choose(2)]
		// the header block as HAProxy hands it over; one block in six is not
		// parseable as MIME headers
		block := ""
		for _, k := range sortedKeys(hdr) {
			block += k + ": " + hdr[k] + "\r\n"
		}
		if tp.Chance(1, 6) {
			block = []string{"this line has no colon\r\n" + block, ": empty-name\r\n" + block, "x-a: 1\r\n bad continuation \x00\r\nnocolon"}[tp.Choose(3)]
			mutations = append(mutations, "malformed-header-block")
		}
		rk := kv.NewKV()
		rk.Add("id", id)
		rk.Add("sequence_id", id)
		rk.Add("method", method)
		rk.Add("scheme", "https")
		rk.Add("url", "a.com"+path)
		rk.Add("path", path)
		rk.Add("query", query)
		rk.Add("headers", block)
		rk.Add("body", []byte(body))
		s.Rule("R3")
		count = 0
		var perr error
		if p := guarded(func() {
			_, perr = routing.VerifProcessRequest(&message.Message{Name: "lunar-on-request", KV: rk}, mgr)
		}); p != "" {
			c05report(s, "request", p, f, mutations, hdr)
			return
		}
		s.Event("request", path, fmt.Sprintf("steps=%d err=%v", count, perr))
		count = 0
		status := []int64{200, 500, 429}[tp.Choose(3)]
		pk := kv.NewKV()
		pk.Add("id", id)
		pk.Add("sequence_id", id)
		pk.Add("method", method)
		pk.Add("url", "a.com"+path)
		pk.Add("status", status)
		pk.Add("headers", block)
		pk.Add("body", []byte(body))
		if p := guarded(func() {
			_, perr = routing.VerifProcessResponse(&message.Message{Name: "lunar-on-response", KV: pk}, mgr)
		}); p != "" {
			c05report(s, "response", p, f, mutations, hdr)
			return
		}
		s.State(fmt.Sprintf("steps%d", count))
	}
}
func c05report(s *kernel.Sim, side, p string, f *c04flow, mutations []string, hdr map[string]string) {
	if strings.HasPrefix(p, "budget:") {
		s.Violate("R3", "unbounded-execution", "an accepted configuration executed more than %d processors for one %s (unbounded execution); flow req=%v resp=%v mutations=%v steering=%v", c05Budget, side, f.req, f.resp, mutations, hdr)
		return
	}
	s.Violate("R3", "engine-panic:"+firstWords(p, 1), "an accepted configuration panicked while handling a %s: %s; flow req=%v resp=%v mutations=%v", side, p, f.req, f.resp, mutations)
}

// guarded runs fn and returns "" or a description of the panic it raised.
func guarded(fn func()) (desc string) {
	defer func() {
		if r := recover(); r != nil {
			if b, ok := r.(c05budgetExceeded); ok {
				desc = fmt.Sprintf("budget:%d", b.n)
				return
			}
			st := string(debug.Stack())
			frame := "unknown"
			seenPanic := false
			for _, l := range strings.Split(st, "\n") {
				if strings.HasPrefix(l, "panic(") {
					seenPanic = true
					continue
				}
				if !seenPanic || strings.HasPrefix(l, "\t") || strings.HasPrefix(l, "runtime.") || l == "" {
					continue
				}
				if i := strings.LastIndexByte(l, '('); i > 0 {
					l = l[:i]
				}
				frame = l
				break
			}
			desc = fmt.Sprintf("%s: %v", frame, r)
		}
	}()
	fn()
	return ""
}

func firstWords(s string, n int) string {
	w := strings.Fields(s)
	if len(w) > n {
		w = w[:n]
	}
	return strings.Join(w, " ")
}
