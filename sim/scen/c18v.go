package scen

import (
	"fmt"
	"sort"
	"strings"
	"sync"
	"time"

	"lunar/toolkit-core/clock"
	"lunar/toolkit-core/vacuum"

	"verifsim/kernel"
)

// C18V - the vacuum's entry list under interleaving. Transactions register keys
// (VacuumKey) while the vacuum goroutine, adopted as a schedulable task, is in
// the middle of a pass: held at its lock sites on a tick at which entries are
// due, a registration is run to completion, then the pass goes on. One-at-a-time
// every registered key leaves the map one time-to-live (plus a tick) later; the
// same must hold for every interleaving - a key that is still there long after
// was lost from the entry list. DESIGN.md section 4, C18.

func init() { register(&Scenario{ID: "C18V", Run: runC18V}) }

func runC18V(s *kernel.Sim) {
	tp := s.Tape
	ttl := time.Duration(tp.Range(1, 3)) * time.Second
	tick := time.Duration(tp.Range(1, 2)) * time.Second
	nOps := tp.Range(4, 14)
	s.Knobs["ttl"], s.Knobs["tick"], s.Knobs["ops"] = ttl.String(), tick.String(), nOps
	s.LogEngineEvents = false
	m := map[string]int{}
	mu := &sync.RWMutex{}
	v := vacuum.NewMapVacuum("verif", clock.NewRealClock(), ttl, tick, m, mu)
	placing := false
	s.YieldOn = func(point string, a []string, harness bool) bool {
		return isLockPoint(point) && (harness || placing)
	}
	type reg struct {
		key string
		at  time.Duration
	}
	var regs []reg
	n := 0
	var t0 time.Duration = -1
	add := func() {
		n++
		k := fmt.Sprintf("k%d", n)
		regs = append(regs, reg{k, s.Now()})
		if t0 < 0 {
			t0 = s.Now()
		}
		s.Event("register", k)
		t := s.Spawn("add-"+k, func() {
			mu.Lock()
			m[k] = 1
			mu.Unlock()
			v.VacuumKey(k)
		})
		for i := 0; i < 200 && !t.Done(); i++ {
			s.Resume(t)
		}
	}
	bgParked := func() []*kernel.Task {
		var out []*kernel.Task
		for _, t := range s.ParkedTasks() {
			if !t.Harness {
				out = append(out, t)
			}
		}
		return out
	}
	drain := func() {
		for i := 0; i < 500; i++ {
			p := bgParked()
			if len(p) == 0 {
				return
			}
			s.Resume(p[0])
		}
	}
	for op := 0; op < nOps && !s.Failed(); op++ {
		if t0 < 0 || tp.Chance(1, 3) {
			s.Sleep(time.Duration(tp.Choose(1500)) * time.Millisecond)
			add()
			continue
		}
		// go to one of the next ticks of the vacuum goroutine and hold it inside its pass
		now := s.Now()
		next := t0 + ((now-t0)/tick+1+time.Duration(tp.Choose(3)))*tick
		placing = true
		s.SleepUntil(next)
		for k := tp.Choose(6); k > 0; k-- {
			if p := bgParked(); len(p) > 0 {
				s.Resume(p[0])
			}
		}
		if len(bgParked()) > 0 {
			s.FaultFired("registration_inside_a_vacuum_pass")
		}
		add()
		placing = false
		drain()
	}
	if s.Failed() {
		return
	}
	// settle: every registered key is due and several ticks pass
	placing = false
	drain()
	s.Sleep(ttl + 4*tick)
	drain()
	s.Rule("R2")
	s.Nontrivial()
	mu.RLock()
	var left []string
	for k := range m {
		left = append(left, k)
	}
	mu.RUnlock()
	sort.Strings(left)
	s.State(fmt.Sprintf("left%d", len(left)))
	if len(left) > 0 {
		var when []string
		for _, r := range regs {
			for _, k := range left {
				if r.key == k {
					when = append(when, fmt.Sprintf("%s registered at %v", k, r.at))
				}
			}
		}
		s.Violate("R2", "vacuum-entry-lost", "at %v, more than a time-to-live (%v) and four ticks (%v) after the last registration, the map still holds %s: the entry list lost them", s.Now(), ttl, tick, strings.Join(when, ", "))
	}
}
