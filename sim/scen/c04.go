package scen

import (
	"fmt"
	"strings"

	"verifsim/kernel"
)

// C04 — flow execution follows the configured processor graph. Generated
// well-formed flows (branching on conditions, fan-out, joins, early-response
// nodes, response-side chains, an optional quota system flow) are loaded into
// the real engine under a load order chosen by the simulator; the sequence of
// processor-executed events of every transaction is compared with a reference
// interpreter that walks the YAML connections. DESIGN.md section 4, C04.

func init() { register(&Scenario{ID: "C04", Run: runC04}) }

type c04conn struct {
	from string // "" = stream start
	cond string
	to   string // "" = stream end
	// flow references (C05 only): "name@at" replaces the stream/processor end point
	fromFlow, toFlow string
}

type c04flow struct {
	name   string
	pre    string          // prefix of every processor key (a referenced flow needs keys of its own)
	skip   map[string]bool // own processors that are not defined (replaced by another flow's processor)
	nReq   int             // request filters p1..pn
	nGen   int             // early-response nodes g1..gm
	nResp  int             // response filters r1..rk
	req    []c04conn
	resp   []c04conn
	status map[string]int // gen -> status
}

func (f *c04flow) def(url string) flowDef {
	d := flowDef{Name: f.name, URL: url}
	for i := 1; i <= f.nReq; i++ {
		d.Procs = append(d.Procs, procDef{Key: fmt.Sprintf("%sp%d", f.pre, i), Type: "Filter", Params: [][2]string{{"header", fmt.Sprintf("x-%s-%sp%d=1", f.name, f.pre, i)}}})
	}
	for i := 1; i <= f.nGen; i++ {
		k := fmt.Sprintf("%sg%d", f.pre, i)
		if f.skip[k] {
			continue
		}
		d.Procs = append(d.Procs, procDef{Key: k, Type: "GenerateResponse", Params: [][2]string{{"status", fmt.Sprint(f.status[k])}, {"body", f.name + k}}})
	}
	for i := 1; i <= f.nResp; i++ {
		d.Procs = append(d.Procs, procDef{Key: fmt.Sprintf("%sr%d", f.pre, i), Type: "Filter", Params: [][2]string{{"header", fmt.Sprintf("x-%s-%sr%d=1", f.name, f.pre, i)}}})
	}
	conv := func(cs []c04conn) []connDef {
		var out []connDef
		for _, c := range cs {
			cd := connDef{Cond: c.cond}
			switch {
			case c.fromFlow != "":
				p := strings.SplitN(c.fromFlow, "@", 2)
				cd.FromFlow, cd.FromFlowAt, cd.Cond = p[0], p[1], ""
			case c.from == "":
				cd.FromStream = "start"
			default:
				cd.FromProc = c.from
			}
			switch {
			case c.toFlow != "":
				p := strings.SplitN(c.toFlow, "@", 2)
				cd.ToFlow, cd.ToFlowAt = p[0], p[1]
			case c.to == "":
				cd.ToStream = "end"
			default:
				cd.ToProc = c.to
			}
			out = append(out, cd)
		}
		return out
	}
	d.Req, d.Resp = conv(f.req), conv(f.resp)
	return d
}

// walk is the reference interpreter: depth-first, connections in declaration
// order, following exactly those whose condition equals the processor's output.
// It returns false when an early-response node ended the walk.
func (f *c04flow) walk(conns []c04conn, node string, out func(node string) string, trace *[]string, early *string) bool {
	*trace = append(*trace, node)
	if c04isGen(node) {
		*early = node
		return false
	}
	c := out(node)
	for _, e := range conns {
		if e.from != node || e.cond != c || e.to == "" {
			continue
		}
		if !f.walk(conns, e.to, out, trace, early) {
			return false
		}
	}
	return true
}

// c04isGen: an early-response node ("g1", or "lg1" in a referenced flow).
func c04isGen(node string) bool {
	return strings.HasPrefix(node, "g") || strings.HasPrefix(node, "lg") || strings.Contains(node, ".g")
}

// prefixed returns the flow with every processor key prefixed.
func (f *c04flow) prefixed(pre string) *c04flow {
	g := &c04flow{name: f.name, pre: pre, nReq: f.nReq, nGen: f.nGen, nResp: f.nResp, status: map[string]int{}}
	n := func(x string) string {
		if x == "" {
			return ""
		}
		return pre + x
	}
	for k, v := range f.status {
		g.status[n(k)] = v
	}
	for _, c := range f.req {
		g.req = append(g.req, c04conn{from: n(c.from), cond: c.cond, to: n(c.to), fromFlow: c.fromFlow, toFlow: c.toFlow})
	}
	for _, c := range f.resp {
		g.resp = append(g.resp, c04conn{from: n(c.from), cond: c.cond, to: n(c.to), fromFlow: c.fromFlow, toFlow: c.toFlow})
	}
	return g
}

func rootOf(conns []c04conn) string {
	for _, c := range conns {
		if c.from == "" {
			return c.to
		}
	}
	return ""
}

// c04NoGen: generate flows without early-response nodes (set by runC04 for the
// runs in which the order of a fan-out is not decided by the configuration).
var c04NoGen bool

// c04EntryFirst: the connection from the stream's start stays the first one listed (set
// by runC04 for the flow-reference shape, whose composite model is built on that).
var c04EntryFirst bool

func genC04Flow(tp *kernel.Tape, name string) *c04flow {
	f := &c04flow{name: name, nReq: tp.Range(1, 4), nGen: tp.Range(0, 2), nResp: tp.Range(0, 3), status: map[string]int{}}
	if tp.Chance(1, 5) {
		f.nReq = tp.Range(6, 9) // a large flow: more than a dozen connections in its request direction
	}
	if c04NoGen {
		f.nGen = 0
	}
	for i := 1; i <= f.nGen; i++ {
		f.status[fmt.Sprintf("g%d", i)] = 400 + 10*i + tp.Choose(9)
	}
	conds := []string{"hit", "miss"}
	// request direction: start -> p1; every later node gets at least one incoming edge from an earlier filter
	f.req = append(f.req, c04conn{from: "", cond: "", to: "p1"})
	incoming := map[string]bool{"p1": true}
	targetsAfter := func(i int) []string {
		var t []string
		for j := i + 1; j <= f.nReq; j++ {
			t = append(t, fmt.Sprintf("p%d", j))
		}
		for j := 1; j <= f.nGen; j++ {
			t = append(t, fmt.Sprintf("g%d", j))
		}
		return append(t, "")
	}
	for i := 1; i <= f.nReq; i++ {
		from := fmt.Sprintf("p%d", i)
		ts := targetsAfter(i)
		for _, c := range conds {
			n := tp.Weighted([]int{1, 5, 2}) // 0, 1 or 2 (fan-out) connections for this outcome
			used := map[string]bool{}
			for k := 0; k < n; k++ {
				to := ts[tp.Choose(len(ts))]
				if used[to] {
					continue
				}
				used[to] = true
				f.req = append(f.req, c04conn{from: from, cond: c, to: to})
				incoming[to] = true
			}
		}
	}
	ensureIncoming := func(node string, maxFrom int) {
		if incoming[node] {
			return
		}
		from := fmt.Sprintf("p%d", 1+tp.Choose(maxFrom))
		f.req = append(f.req, c04conn{from: from, cond: conds[tp.Choose(2)], to: node})
		incoming[node] = true
	}
	for j := 2; j <= f.nReq; j++ {
		ensureIncoming(fmt.Sprintf("p%d", j), j-1)
	}
	for j := 1; j <= f.nGen; j++ {
		ensureIncoming(fmt.Sprintf("g%d", j), f.nReq)
	}
	// every filter must have at least one outgoing connection or be a target; p1 is the root and needs an outgoing edge
	hasOut := map[string]bool{}
	for _, c := range f.req {
		hasOut[c.from] = true
	}
	for i := 1; i <= f.nReq; i++ {
		p := fmt.Sprintf("p%d", i)
		if !hasOut[p] {
			f.req = append(f.req, c04conn{from: p, cond: conds[tp.Choose(2)], to: ""})
		}
	}
	// the connection from the stream's start is listed anywhere among the others in a
	// third of the flows (the order of the others, which is the order of a fan-out, stays)
	if len(f.req) > 2 && !c04EntryFirst && tp.Chance(1, 3) {
		k := 1 + tp.Choose(len(f.req)-1)
		entry := f.req[0]
		rest := append([]c04conn{}, f.req[1:]...)
		f.req = append(append(append([]c04conn{}, rest[:k]...), entry), rest[k:]...)
	}
	// response direction: optional root chain r1.., every early-response node has exactly one response connection
	if f.nResp > 0 && tp.Chance(3, 4) {
		f.resp = append(f.resp, c04conn{from: "", cond: "", to: "r1"})
	}
	rIncoming := map[string]bool{}
	if len(f.resp) > 0 {
		rIncoming["r1"] = true
	}
	for j := 1; j <= f.nGen; j++ {
		to := ""
		if f.nResp > 0 && tp.Chance(1, 2) {
			to = fmt.Sprintf("r%d", 1+tp.Choose(f.nResp))
		}
		f.resp = append(f.resp, c04conn{from: fmt.Sprintf("g%d", j), to: to})
		if to != "" {
			rIncoming[to] = true
		}
	}
	for i := 1; i <= f.nResp; i++ {
		from := fmt.Sprintf("r%d", i)
		for _, c := range conds {
			n := tp.Weighted([]int{2, 5, 1})
			used := map[string]bool{}
			for k := 0; k < n; k++ {
				var ts []string
				for j := i + 1; j <= f.nResp; j++ {
					ts = append(ts, fmt.Sprintf("r%d", j))
				}
				ts = append(ts, "")
				to := ts[tp.Choose(len(ts))]
				if used[to] {
					continue
				}
				used[to] = true
				f.resp = append(f.resp, c04conn{from: from, cond: c, to: to})
				if to != "" {
					rIncoming[to] = true
				}
			}
		}
	}
	// every response filter needs an outgoing connection (a root without one counts as unconnected)
	rOut := map[string]bool{}
	for _, c := range f.resp {
		rOut[c.from] = true
	}
	for i := 1; i <= f.nResp; i++ {
		r := fmt.Sprintf("r%d", i)
		if !rOut[r] {
			f.resp = append(f.resp, c04conn{from: r, cond: conds[tp.Choose(2)], to: ""})
		}
	}
	// a flow needs a response section: an empty one becomes a pass-through
	if len(f.resp) == 0 {
		f.resp = append(f.resp, c04conn{from: "", cond: "", to: ""})
	}
	return f
}

func runC04(s *kernel.Sim) {
	tp := s.Tape
	nFlows := 1 + tp.Weighted([]int{3, 1})
	// reference shape (a quarter of the runs): one flow on the transaction's URL whose
	// request path begins with another flow ("from flow lib at end") and whose
	// response path hands over to it ("to flow lib at start"); lib sits on a URL of
	// its own and is judged through the graph of the flow that refers to it
	refShape := tp.Chance(1, 4)
	if refShape {
		nFlows = 1
	}
	// a third of them refer to the end of lib from two processors: after lib both run
	// (the order of that fan-out is not given by any one connection list, so these
	// runs have no early-response nodes and are judged on what ran, not in which order)
	twoEntries := refShape && tp.Chance(1, 3)
	c04NoGen = twoEntries
	c04EntryFirst = refShape
	defer func() { c04NoGen, c04EntryFirst = false, false }()
	s.Knobs["flow_reference"], s.Knobs["referenced_flow_end_fans_out"] = refShape, twoEntries
	var flows []*c04flow
	files := map[string]string{}
	var desc []string
	for i := 0; i < nFlows; i++ {
		f := genC04Flow(tp, fmt.Sprintf("f%d", i))
		flows = append(flows, f)
		y := f.def("a.com/g").YAML()
		files["flows/"+f.name+".yaml"] = y
		desc = append(desc, fmt.Sprintf("%s req=%v resp=%v", f.name, f.req, f.resp))
	}
	// cross-flow processor use (a third of the two-flow runs in which both flows
	// have an early-response node): f0 refers to f1's processor g1 as "f1.g1"
	// instead of having a g1 of its own
	if !refShape && nFlows == 2 && flows[0].nGen >= 1 && flows[1].nGen >= 1 && tp.Chance(1, 3) {
		f0 := flows[0]
		if tp.Chance(1, 2) {
			f0.skip = map[string]bool{"g1": true}
		} else {
			// f0 still declares a g1 of its own, configured differently, and connects
			// nothing to it: the node "f1.g1" is f1's processor all the same
			f0.status["g1"] = flows[1].status["g1"] + 100
			s.Knobs["cross_flow_processor_shadows_a_local_one"] = true
		}
		for i := range f0.req {
			if f0.req[i].to == "g1" {
				f0.req[i].to = "f1.g1"
			}
		}
		for i := range f0.resp {
			if f0.resp[i].from == "g1" {
				f0.resp[i].from = "f1.g1"
			}
		}
		f0.status["f1.g1"] = flows[1].status["g1"]
		files["flows/f0.yaml"] = f0.def("a.com/g").YAML()
		desc[0] = fmt.Sprintf("%s req=%v resp=%v", f0.name, f0.req, f0.resp)
		s.Knobs["cross_flow_processor"] = true
	}
	model := flows   // what the reference interpreter walks
	steered := flows // whose filters the steering headers address
	if refShape {
		main := flows[0]
		g := genC04Flow(tp, "lib")
		// the referenced response direction needs an entry point
		if g.nResp == 0 {
			g.nResp = 1
			g.resp = append(g.resp, c04conn{from: "r1", cond: "hit", to: ""})
		}
		var resp []c04conn
		for _, c := range g.resp {
			if !(c.from == "" && c.fromFlow == "") {
				resp = append(resp, c)
			}
		}
		g.resp = append([]c04conn{{from: "", to: "r1"}}, resp...)
		lib := g.prefixed("l")
		// main: the request entry is the end of lib; response ends hand over to lib
		entry := main.req[0].to
		main.req[0] = c04conn{fromFlow: "lib@end", to: entry}
		entries := []string{entry}
		if twoEntries {
			if main.nReq < 2 {
				main.nReq = 2
				main.req = append(main.req, c04conn{from: "p2", cond: "hit", to: ""})
			}
			second := fmt.Sprintf("p%d", 2+tp.Choose(main.nReq-1))
			entries = append(entries, second)
			// the second reference follows the first in the connection list
			main.req = append([]c04conn{main.req[0], {fromFlow: "lib@end", to: second}}, main.req[1:]...)
		}
		if rootOf(main.resp) == "" {
			if main.nResp == 0 {
				main.nResp = 1
				main.resp = append(main.resp, c04conn{from: "r1", cond: "miss", to: ""})
			}
			var keep []c04conn
			for _, c := range main.resp {
				if c.from != "" {
					keep = append(keep, c)
				}
			}
			main.resp = append([]c04conn{{from: "", to: "r1"}}, keep...)
		}
		handed := 0
		for i, c := range main.resp {
			if c.from != "" && c.to == "" && tp.Chance(1, 2) {
				main.resp[i].toFlow = "lib@start"
				handed++
			}
		}
		if handed == 0 {
			main.resp = append(main.resp, c04conn{from: "r1", cond: "hit", toFlow: "lib@start"})
		}
		files["flows/f0.yaml"] = main.def("a.com/g").YAML()
		files["flows/lib.yaml"] = lib.def("a.com/lib").YAML()
		desc = []string{fmt.Sprintf("f0 req=%v resp=%v", main.req, main.resp), fmt.Sprintf("lib req=%v resp=%v", lib.req, lib.resp)}
		// the composite graph: lib's request path, its ends continue at main's entry;
		// main's response path, handed-over ends continue at lib's response entry
		comp := &c04flow{name: "f0", status: map[string]int{}}
		for k, v := range main.status {
			comp.status[k] = v
		}
		for k, v := range lib.status {
			comp.status[k] = v
		}
		comp.req = append(comp.req, c04conn{from: "", to: rootOf(lib.req)})
		for _, c := range lib.req {
			if c.from == "" {
				continue
			}
			if c.to == "" {
				for _, e := range entries {
					c.to = e
					comp.req = append(comp.req, c)
				}
				continue
			}
			comp.req = append(comp.req, c)
		}
		comp.req = append(comp.req, main.req[len(entries):]...)
		libRespRoot := rootOf(lib.resp)
		for _, c := range main.resp {
			if c.toFlow != "" {
				c.to, c.toFlow = libRespRoot, ""
			}
			comp.resp = append(comp.resp, c)
		}
		for _, c := range lib.resp {
			if c.from != "" {
				comp.resp = append(comp.resp, c)
			}
		}
		model = []*c04flow{comp}
		steered = []*c04flow{main, lib}
	}
	withQuota := tp.Chance(1, 3)
	if withQuota {
		files["quotas/q.yaml"] = strings.ReplaceAll(c08Quota, "a.com/p1", "a.com/g")
	}
	// or two concurrency quotas whose filters both match the transaction: their
	// system flows run around the user flows, in reverse order on the response
	nestedQuotas := !withQuota && tp.Chance(1, 3)
	if nestedQuotas {
		q := "quotas:\n"
		urls := []string{"a.com/*", "a.com/g"}
		ids := []string{"outer", "inner"}
		for _, k := range tp.Perm(2) { // declaration order is not the nesting order
			q += fmt.Sprintf("  - id: %s\n    filter:\n      url: %s\n    strategy:\n      concurrent:\n        max_request_count: 1000\n        request_expiration_sec: 60\n        gc_interval_sec: 30\n", ids[k], urls[k])
		}
		files["quotas/q.yaml"] = q
	}
	s.Knobs["nested_concurrency_quotas"] = nestedQuotas
	nTxn := tp.Range(3, 10)
	s.Knobs["flows"], s.Knobs["quota_system_flow"], s.Knobs["transactions"] = desc, withQuota, nTxn
	s.MixSig(desc...)
	s.LogEngineEvents = false
	perm := tp.Perm(nFlows)
	s.OrderOn = func(point string, have []string) []string {
		if point != "flow.build" {
			return nil
		}
		var out []string
		in := map[string]bool{}
		for _, p := range perm {
			out = append(out, flows[p].name)
			in[flows[p].name] = true
		}
		for _, n := range sortedCopy(have) {
			if !in[n] {
				out = append(out, n)
			}
		}
		return out
	}
	env, err := newEngine(s, files)
	if err != nil {
		s.HarnessErr = "engine rejected a generated well-formed C04 flow: " + err.Error() + "\n" + strings.Join(desc, "\n")
		return
	}
	type ev struct{ flow, proc, dir string }
	got := map[string][]ev{}
	s.OnEvent = func(kind string, a []string) {
		if kind == "proc.executed" && len(a) == 5 {
			got[a[0]] = append(got[a[0]], ev{a[1], a[2], a[3]})
		}
	}
	isSys := func(flow string) bool { return strings.HasPrefix(flow, "SystemFlow_") }
	quotaOf := func(flow string) string {
		x := strings.TrimPrefix(flow, "SystemFlow_")
		x = strings.TrimSuffix(strings.TrimSuffix(x, "_SYSTEM_FLOW_START"), "_SYSTEM_FLOW_END")
		return x
	}
	// flowSeq: flows in order of their first processor execution in a transaction side
	flowSeq := func(txn string) []string {
		var out []string
		seen := map[string]bool{}
		for _, e := range got[txn] {
			if !seen[e.flow] {
				seen[e.flow] = true
				out = append(out, e.flow)
			}
		}
		return out
	}
	sysOrder := func(txn string) []string { // quota ids in order of their system flows
		var out []string
		seen := map[string]bool{}
		for _, f := range flowSeq(txn) {
			if isSys(f) && !seen[quotaOf(f)] {
				seen[quotaOf(f)] = true
				out = append(out, quotaOf(f))
			}
		}
		return out
	}
	userSeq := func(txn string) []string {
		var out []string
		for _, f := range flowSeq(txn) {
			if !isSys(f) {
				out = append(out, f)
			}
		}
		return out
	}
	flowPositions := func(txn string) (firstUser, lastSysStart int) {
		firstUser, lastSysStart = -1, -1
		for i, f := range flowSeq(txn) {
			if !isSys(f) && firstUser < 0 {
				firstUser = i
			}
			if isSys(f) && strings.HasSuffix(f, "_SYSTEM_FLOW_START") {
				lastSysStart = i
			}
		}
		return
	}
	userOrder := []string{}
	for _, p := range perm {
		userOrder = append(userOrder, flows[p].name)
	}
	for ti := 0; ti < nTxn && !s.Failed(); ti++ {
		// steering: which filters hit
		hdr := map[string]string{}
		rhdr := map[string]string{}
		hit := map[string]bool{}
		for _, f := range steered {
			for i := 1; i <= f.nReq; i++ {
				if tp.Chance(1, 2) {
					hdr[fmt.Sprintf("x-%s-%sp%d", f.name, f.pre, i)] = "1"
					hit[f.name+"/"+f.pre+"p"+fmt.Sprint(i)] = true
					hit["f0/"+f.pre+"p"+fmt.Sprint(i)] = hit["f0/"+f.pre+"p"+fmt.Sprint(i)] || refShape
				}
			}
			for i := 1; i <= f.nResp; i++ {
				if tp.Chance(1, 2) {
					rhdr[fmt.Sprintf("x-%s-%sr%d", f.name, f.pre, i)] = "1"
					hit[f.name+"/"+f.pre+"r"+fmt.Sprint(i)] = true
					hit["f0/"+f.pre+"r"+fmt.Sprint(i)] = hit["f0/"+f.pre+"r"+fmt.Sprint(i)] || refShape
				}
			}
		}
		id := fmt.Sprintf("t%d", ti)
		out := env.doRequest(reqMsg(id, "GET", "a.com", "/g", hdr))
		if out.Err != nil {
			s.Violate("R1", "execute-error", "ExecuteFlow(request) error: %v", out.Err)
			return
		}
		// reference: user flows in load order until one answers early
		type exp struct {
			req, resp []string
		}
		want := map[string]*exp{}
		earlyFlow, earlyNode := "", ""
		for _, name := range userOrder {
			var f *c04flow
			for _, x := range model {
				if x.name == name {
					f = x
				}
			}
			e := &exp{}
			want[name] = e
			var early string
			f.walk(f.req, rootOf(f.req), func(n string) string {
				if hit[f.name+"/"+n] {
					return "hit"
				}
				return "miss"
			}, &e.req, &early)
			if early != "" {
				earlyFlow, earlyNode = name, early
				break
			}
		}
		respHit := func(f *c04flow, earlyPath bool) func(string) string {
			return func(n string) string {
				// after an early response the generated response carries none of the steering headers
				if !earlyPath && hit[f.name+"/"+n] {
					return "hit"
				}
				return "miss"
			}
		}
		if earlyFlow != "" {
			// the response path runs inside the same call: every user flow's response direction,
			// the answering flow from its early-response node's response connection
			for _, f := range model {
				e := want[f.name]
				if e == nil {
					e = &exp{}
					want[f.name] = e
				}
				var dummy string
				if f.name == earlyFlow {
					for _, c := range f.resp {
						if c.from == earlyNode && c.to != "" {
							f.walk(f.resp, c.to, respHit(f, true), &e.resp, &dummy)
						}
					}
				} else if r := rootOf(f.resp); r != "" {
					f.walk(f.resp, r, respHit(f, true), &e.resp, &dummy)
				}
			}
		}
		compare := func(tag string, txn string) {
			for _, f := range model {
				var gr, gs []string
				for _, e := range got[txn] {
					if e.flow != f.name {
						continue
					}
					if strings.Contains(strings.ToLower(e.dir), "response") {
						gs = append(gs, e.proc)
					} else {
						gr = append(gr, e.proc)
					}
				}
				w := want[f.name]
				if w == nil {
					w = &exp{}
				}
				s.Rule("R1")
				wr, ws := w.req, w.resp
				if twoEntries { // judged on what ran
					gr, gs, wr, ws = sortedCopy(gr), sortedCopy(gs), sortedCopy(wr), sortedCopy(ws)
				}
				if strings.Join(gr, ",") != strings.Join(wr, ",") || strings.Join(gs, ",") != strings.Join(ws, ",") {
					sig := "sequence-differs-from-graph"
					if earlyFlow != "" {
						sig = "sequence-differs-from-graph:after-early-response"
					}
					s.Violate("R1", sig, "%s of transaction %s, flow %s: executed request-side %v response-side %v, the configured graph gives request-side %v response-side %v; steering %v; flow: req=%v resp=%v; load order %v",
						tag, txn, f.name, gr, gs, w.req, w.resp, keysOf(hit), f.req, f.resp, userOrder)
				}
			}
		}
		compare("request", id)
		// a quota's system flow runs its processors once per transaction side
		s.Rule("R3")
		{
			seen := map[string]int{}
			for _, e := range got[id] {
				if isSys(e.flow) {
					seen[e.flow+"/"+e.proc+"/"+e.dir]++
				}
			}
			for _, k := range sortedKeys(seen) {
				if seen[k] > 1 {
					s.Violate("R3", "system-flow-processor-ran-twice", "transaction %s: %s ran %d times; executed: %v", id, k, seen[k], got[id])
					break
				}
			}
		}
		if refShape {
			for _, e := range append(append([]ev{}, got[id]...), got[id+"r"]...) {
				if e.flow == "lib" {
					s.Violate("R1", "referenced-flow-ran-on-its-own", "transaction %s does not match the filter of flow lib (a.com/lib), yet %s ran as part of flow lib", id, e.proc)
					break
				}
			}
		}
		sysReq := sysOrder(id)
		s.Rule("R3")
		if firstUser, lastSysStart := flowPositions(id); firstUser >= 0 && lastSysStart > firstUser {
			s.Violate("R3", "system-flow-after-user-flow-on-request", "transaction %s: a quota system start flow ran after a user flow on the request: %v", id, flowSeq(id))
		}
		if o := userSeq(id); earlyFlow == "" && !isPrefixOrder(o, userOrder) {
			s.Violate("R3", "user-flows-not-in-load-order-on-request", "transaction %s: user flows ran in order %v on the request, load order is %v", id, o, userOrder)
		}
		s.Rule("R2")
		if out.Early != (earlyFlow != "") {
			s.Violate("R2", "early-response-presence", "transaction %s: early response returned=%v, the graph reaches an early-response node=%v (%s/%s)", id, out.Early, earlyFlow != "", earlyFlow, earlyNode)
		} else if out.Early {
			var f *c04flow
			for _, x := range model {
				if x.name == earlyFlow {
					f = x
				}
			}
			if out.Status != f.status[earlyNode] {
				s.Violate("R2", "early-response-status", "transaction %s: early response status %d, node %s/%s configures %d", id, out.Status, earlyFlow, earlyNode, f.status[earlyNode])
			}
			s.Nontrivial()
		}
		if earlyFlow != "" {
			continue
		}
		// ---- provider response: user flows in reverse load order ----
		rid := id + "r"
		want = map[string]*exp{}
		r := env.doResponseFull(rid, rid, "GET", "a.com", "/g", 200, rhdr)
		if r.Err != nil {
			s.Violate("R1", "execute-error", "ExecuteFlow(response) error: %v", r.Err)
			return
		}
		for _, f := range model {
			e := &exp{}
			want[f.name] = e
			var dummy string
			if root := rootOf(f.resp); root != "" {
				f.walk(f.resp, root, respHit(f, false), &e.resp, &dummy)
			}
		}
		earlyFlow = ""
		compare("response", rid)
		s.Rule("R3")
		if sysResp := sysOrder(rid); len(sysReq) > 1 && len(sysResp) == len(sysReq) {
			for i := range sysResp {
				if sysResp[i] != sysReq[len(sysReq)-1-i] {
					s.Violate("R3", "system-flows-not-reversed-on-response", "quota system flows ran in order %v on the request of %s and %v on its response (must be the reverse)", sysReq, id, sysResp)
					break
				}
			}
		}
		if o := userSeq(rid); !isPrefixOrder(reverseOf(o), userOrder) && len(o) == len(userOrder) {
			s.Violate("R3", "user-flows-not-reversed-on-response", "user flows ran in order %v on the response of %s, load order is %v", o, id, userOrder)
		}
		if len(got[rid]) > 0 || len(got[id]) > 1 {
			s.Nontrivial()
		}
		s.State(fmt.Sprintf("%d/%d", len(got[id]), len(got[rid])))
	}
}

// isPrefixOrder: the elements of got appear in the same relative order in want.
func isPrefixOrder(got, want []string) bool {
	pos := map[string]int{}
	for i, w := range want {
		pos[w] = i
	}
	last := -1
	for _, g := range got {
		p, ok := pos[g]
		if !ok || p < last {
			return false
		}
		last = p
	}
	return true
}

func reverseOf(a []string) []string {
	b := make([]string, len(a))
	for i := range a {
		b[len(a)-1-i] = a[i]
	}
	return b
}

func sortedCopy(a []string) []string {
	b := append([]string(nil), a...)
	for i := range b {
		for j := i + 1; j < len(b); j++ {
			if b[j] < b[i] {
				b[i], b[j] = b[j], b[i]
			}
		}
	}
	return b
}

func keysOf(m map[string]bool) []string {
	var k []string
	for x := range m {
		k = append(k, x)
	}
	return sortedCopy(k)
}
