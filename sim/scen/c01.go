package scen

import (
	"fmt"
	"strings"
	"time"

	"verifsim/kernel"
)

// C01 — fixed-window quotas never admit more than their limit per window;
// sequentially a refusal only happens when the quota or an ancestor is full.
// Real streams engine (Limiter -> GenerateResponse flows over a generated
// quota hierarchy) on the bubble's fake clock. DESIGN.md section 4, C01.

func init() { register(&Scenario{ID: "C01", Run: runC01}) }

type c01level struct {
	id     string
	max    int64
	win    time.Duration
	group  bool // group_by_header x-grp
	parent int  // index, -1 for the root
	url    string
	pct    int  // > 0: declared as allocation_percentage of its parent (max and window derive from it)
	cost   bool // fixed_window_custom_counter: every request carries its own cost (header x-cost)
}

type c01state struct {
	start int64 // unix ns
	count int64
}

// c01model is one candidate reading of "window": anchored at the first request
// that reaches the level after the previous window ended, either at the exact
// instant or truncated to whole seconds (the anchor documents unix seconds).
type c01model struct {
	name  string
	trunc bool
	alive bool
	st    map[string]*c01state
}

func (m *c01model) clone() *c01model {
	c := &c01model{name: m.name, trunc: m.trunc, alive: m.alive, st: map[string]*c01state{}}
	for k, v := range m.st {
		x := *v
		c.st[k] = &x
	}
	return c
}

func c01key(l *c01level, grp string) string {
	if !l.group || grp == "" {
		return l.id + "_default"
	}
	return l.id + "_" + grp
}

// roll makes the state current for instant t and returns it.
func (m *c01model) roll(l *c01level, grp string, t int64) *c01state {
	k := c01key(l, grp)
	s := m.st[k]
	if s == nil {
		s = &c01state{start: -1 << 62}
		m.st[k] = s
	}
	if t-s.start >= int64(l.win) {
		s.start = t
		if m.trunc {
			s.start = t - t%int64(time.Second)
		}
		s.count = 0
	}
	return s
}

// step applies one sequential request and returns the model's verdict.
func (m *c01model) step(levels []c01level, target int, grp string, t int64, cost int64) bool {
	for i := target; i >= 0; i = levels[i].parent {
		l := &levels[i]
		if cost > l.max {
			// a request that alone costs more than the maximum is refused and leaves the
			// quota as it was: it does not open a new window either
			if st := m.st[c01key(l, grp)]; st == nil || t-st.start >= int64(l.win) {
				return false
			}
		}
		s := m.roll(l, grp, t)
		if s.count+cost > l.max {
			return false
		}
		s.count += cost
	}
	return true
}

func runC01(s *kernel.Sim) {
	tp := s.Tape
	nLevels := 1 + tp.Weighted([]int{3, 3, 2})
	levels := make([]c01level, nLevels)
	for i := range levels {
		unit := time.Second
		if tp.Chance(1, 8) {
			unit = time.Minute
		}
		levels[i] = c01level{
			id: fmt.Sprintf("q%d", i), max: int64(tp.Range(1, 4)), win: time.Duration(tp.Range(1, 3)) * unit,
			group: tp.Chance(1, 3), parent: i - 1, url: fmt.Sprintf("a.com/l%d", i),
		}
	}
	// one run in five: two sibling internal limits, each declared as a percentage
	// of the same parent (their limits are that share of the parent's maximum, their
	// window is the parent's); shares are chosen so that they are whole numbers
	pctMode := tp.Chance(1, 5)
	if pctMode {
		rootMax := int64([]int{4, 8, 10, 20}[tp.Choose(4)])
		win := time.Duration(tp.Range(1, 2)) * time.Minute
		levels = []c01level{{id: "q0", max: rootMax, win: win, parent: -1, url: "a.com/l0"}}
		for i := 1; i <= 2; i++ {
			var ok []int
			for _, p := range []int{25, 50, 75, 100, 10} {
				if rootMax*int64(p)%100 == 0 {
					ok = append(ok, p)
				}
			}
			p := ok[tp.Choose(len(ok))]
			levels = append(levels, c01level{id: fmt.Sprintf("q%d", i), max: rootMax * int64(p) / 100, win: win, parent: 0, url: fmt.Sprintf("a.com/l%d", i), pct: p})
		}
		nLevels = 3
	}
	// one of the other runs in six: custom-counter quotas - every request carries its
	// own cost, what a window admits is the sum of the costs; some requests cost more
	// than the whole maximum
	costMode := !pctMode && tp.Chance(1, 6)
	if costMode {
		for i := range levels {
			levels[i].cost = true
			levels[i].max = int64(tp.Range(3, 9))
		}
	}
	nOps := tp.Range(5, 40)
	burstP := tp.Choose(4) // 0: never
	if costMode {
		burstP = 0
	}
	siteOn, density := lockSites(tp)
	s.Knobs["levels"] = fmt.Sprintf("%+v", levels)
	s.Knobs["ops"], s.Knobs["burst"], s.Knobs["lock_sites"], s.Knobs["custom_counter"] = nOps, burstP, density, costMode

	files := map[string]string{"quotas/quota.yaml": c01QuotaYAML(levels)}
	for i, l := range levels {
		files[fmt.Sprintf("flows/f%d.yaml", i)] = limiterFlow(fmt.Sprintf("f%d", i), l.url, l.id).YAML()
	}
	env, err := newEngine(s, files)
	if err != nil {
		s.HarnessErr = "engine rejected generated C01 configuration: " + err.Error()
		return
	}
	inBurst := false
	s.YieldOn = func(point string, a []string, harness bool) bool {
		return harness && inBurst && isLockPoint(point) && siteOn(a[0])
	}
	s.LogEngineEvents = false
	// the engine's own increment decisions (emitted under the quota mutex)
	type incEv struct {
		key, result string
		restarted   bool
	}
	incs := map[string][]incEv{} // request id -> increments
	sinceRestart := map[string]int64{}
	s.OnEvent = func(kind string, a []string) {
		if kind != "fw.inc" || len(a) != 4 {
			return
		}
		key := strings.TrimSuffix(a[0], "_currentCount")
		incs[a[1]] = append(incs[a[1]], incEv{key, a[2], a[3] == "true"})
		if a[3] == "true" {
			sinceRestart[key] = 0
		}
		if a[2] == "increased" {
			sinceRestart[key]++
			for i := range levels {
				if strings.HasPrefix(key, levels[i].id+"_") && sinceRestart[key] > levels[i].max {
					s.Violate("R1", "window-counter-exceeds-max", "quota %s counted %d admitted increments since its window last restarted, max %d", key, sinceRestart[key], levels[i].max)
				}
			}
		}
	}
	// counted: the request has a counted increment at the given level
	counted := func(id string, l *c01level, grp string) bool {
		for _, e := range incs[id] {
			if e.key == c01key(l, grp) && e.result == "increased" {
				return true
			}
		}
		return false
	}

	models := []*c01model{{name: "exact", alive: true, st: map[string]*c01state{}},
		{name: "trunc-to-second", trunc: true, alive: true, st: map[string]*c01state{}}}
	unix := func() int64 { return time.Now().UnixNano() }
	groups := []string{"", "a", "b", "c", "A"} // values that differ only in case are different groups
	reqN := 0
	noise := tp.Chance(1, 3)
	s.Knobs["unrelated_headers"] = noise
	reuseIDs := tp.Chance(1, 4)
	s.Knobs["request_ids_sent_again"] = reuseIDs
	var seqIDs []string
	issue := func(target int, grp string) (string, map[string]string) {
		reqN++
		h := map[string]string{}
		if grp != "" {
			h["x-grp"] = grp
		}
		// headers that take no part in the grouping, among them one whose name is the
		// engine's word for "no group"
		if noise && tp.Chance(1, 3) {
			h[[]string{"default", "x-grp-2", "x-group"}[tp.Choose(3)]] = []string{"a", "b", "zz"}[tp.Choose(3)]
		}
		return fmt.Sprintf("t%d", reqN), h
	}
	maxW := time.Duration(0)
	for _, l := range levels {
		if l.win > maxW {
			maxW = l.win
		}
	}

	for op := 0; op < nOps && !s.Failed(); op++ {
		// ---- clock move to an absolute instant from the menu ----
		now := s.Now()
		var targets []time.Duration
		targets = append(targets, now, now+time.Microsecond, now+time.Duration(1+tp.Choose(900))*time.Millisecond)
		for _, m := range models {
			if !m.alive {
				continue
			}
			for _, k := range sortedKeys(m.st) {
				st := m.st[k]
				var l *c01level
				for i := range levels {
					if strings.HasPrefix(k, levels[i].id+"_") {
						l = &levels[i]
					}
				}
				end := time.Duration(st.start+int64(l.win)) - time.Duration(s.Start.UnixNano())
				if end > now {
					targets = append(targets, end, end-1, end+1)
				}
			}
		}
		targets = append(targets, now+maxW*time.Duration(1+tp.Choose(3))+time.Duration(tp.Choose(1000))*time.Millisecond)
		s.SleepUntil(targets[tp.Choose(len(targets))])
		t := unix()

		if burstP > 0 && tp.Chance(burstP, 12) {
			// ---- concurrent burst at one instant: only the bound is judged ----
			k := tp.Range(2, 5)
			type br struct {
				target int
				grp    string
				out    reqOutcome
				task   *kernel.Task
			}
			brs := make([]*br, k)
			inBurst = true
			for i := range brs {
				b := &br{target: tp.Choose(nLevels), grp: groups[tp.Choose(len(groups))]}
				id, h := issue(b.target, b.grp)
				brs[i] = b
				s.Event("burst-request", id, levels[b.target].id, b.grp)
				b.task = s.Spawn(id, func() {
					b.out = env.doRequest(reqMsg(id, "GET", "a.com", fmt.Sprintf("/l%d", b.target), h))
				})
			}
			jumped := false
			for steps := 0; steps < 4000; steps++ {
				p := s.ParkedTasks()
				if len(p) == 0 {
					break
				}
				// sometimes the clock crosses a window end while requests are parked
				// between their increment and their verdict
				if steps > 0 && tp.Chance(1, 12) {
					var ends []time.Duration
					for _, m := range models {
						for _, k := range sortedKeys(m.st) {
							for i := range levels {
								if strings.HasPrefix(k, levels[i].id+"_") {
									e := time.Duration(m.st[k].start+int64(levels[i].win)) - time.Duration(s.Start.UnixNano())
									if e > s.Now() {
										ends = append(ends, e, e+1)
									}
								}
							}
						}
					}
					if len(ends) > 0 {
						s.SleepUntil(ends[tp.Choose(len(ends))])
					} else {
						s.Sleep(maxW)
					}
					jumped = true
					s.FaultFired("clock_crosses_window_end_inside_burst")
					continue
				}
				s.Resume(p[tp.Choose(len(p))])
			}
			inBurst = false
			if s.Failed() {
				break
			}
			s.FaultFired("concurrent_burst")
			s.Rule("R1-burst")
			// every admitted request must have been counted at every level on its path
			for bi, b := range brs {
				if b.out.Early || b.out.Err != nil {
					continue
				}
				id := fmt.Sprintf("t%d", reqN-len(brs)+bi+1)
				for i := b.target; i >= 0; i = levels[i].parent {
					if !counted(id, &levels[i], b.grp) {
						s.Violate("R1", "admitted-without-counted-increment", "request %s (quota %s, group %q) was admitted although quota %s never counted it (its increment was refused or missing)", id, levels[b.target].id, b.grp, levels[i].id)
					}
				}
			}
			if jumped {
				// instants differ inside the burst: the per-instant bound below does not apply
				s.Nontrivial()
				s.Sleep(maxW + time.Second + time.Duration(tp.Choose(1000))*time.Millisecond)
				continue
			}
			for _, m := range models {
				if !m.alive {
					continue
				}
				// admitted requests of the burst per (level, group)
				add := map[string]int64{}
				for _, b := range brs {
					if b.out.Err != nil {
						s.Violate("R1", "execute-error", "ExecuteFlow returned an error: %v", b.out.Err)
					}
					if b.out.Early {
						continue
					}
					for i := b.target; i >= 0; i = levels[i].parent {
						add[c01key(&levels[i], b.grp)+"|"+fmt.Sprint(i)]++
					}
				}
				ok := true
				detail := ""
				for _, key := range sortedKeys(add) {
					var li int
					parts := strings.Split(key, "|")
					fmt.Sscan(parts[1], &li)
					l := &levels[li]
					grp := strings.TrimPrefix(parts[0], l.id+"_")
					if grp == "default" {
						grp = ""
					}
					mc := m.clone()
					st := mc.roll(l, grp, t)
					if st.count+add[key] > l.max {
						ok = false
						detail = fmt.Sprintf("quota %s group %q: %d already admitted in the window + %d admitted concurrently > max %d",
							l.id, grp, st.count, add[key], l.max)
					}
				}
				if !ok {
					m.alive = false
					s.Event("model-dropped", m.name, detail)
				}
			}
			if !models[0].alive && !models[1].alive {
				s.Violate("R1", "bound-exceeded-concurrent", "concurrent burst admitted more than the limit under every reading of the window (see model-dropped events)")
			}
			s.Nontrivial()
			// the model's counts are uncertain after a burst: let every window expire
			s.Sleep(maxW + time.Second + time.Duration(tp.Choose(1000))*time.Millisecond)
			continue
		}

		// ---- one sequential request ----
		target := tp.Choose(nLevels)
		grp := groups[tp.Choose(len(groups))]
		id, h := issue(target, grp)
		// request ids come from the client (x-lunar-req-id; a retry keeps its id): a quarter
		// of the runs re-send the id of an earlier, completed request now and then - every
		// transaction counts, whatever it calls itself
		if reuseIDs && len(seqIDs) > 0 && tp.Chance(1, 3) {
			id = seqIDs[tp.Choose(len(seqIDs))]
			delete(incs, id) // the increments of its earlier use are not this one's
			s.Probe("request_id_sent_again")
		} else {
			seqIDs = append(seqIDs, id)
		}
		cost := int64(1)
		if costMode {
			cost = int64(tp.Range(1, int(levels[target].max)+3))
			h["x-cost"] = fmt.Sprint(cost)
		}
		out := env.doRequest(reqMsg(id, "GET", "a.com", fmt.Sprintf("/l%d", target), h))
		if out.Err != nil {
			s.Violate("R1", "execute-error", "ExecuteFlow returned an error: %v", out.Err)
			break
		}
		admitted := !out.Early
		s.Event("request", id, levels[target].id, grp, fmt.Sprint(admitted), fmt.Sprint(cost))
		if admitted {
			for i := target; i >= 0; i = levels[i].parent {
				if !counted(id, &levels[i], grp) {
					s.Violate("R1", "admitted-without-counted-increment", "request %s (quota %s, group %q) was admitted although quota %s never counted it", id, levels[target].id, grp, levels[i].id)
				}
			}
		}
		if out.Early && out.Status != 429 {
			s.Violate("R2", "wrong-status", "refusal carried status %d, flow configures 429", out.Status)
		}
		s.Rule("R1")
		s.Rule("R2")
		anyAlive := false
		var verdicts []string
		for _, m := range models {
			if !m.alive {
				continue
			}
			v := m.step(levels, target, grp, t, cost)
			verdicts = append(verdicts, fmt.Sprintf("%s=%v", m.name, v))
			if v != admitted {
				m.alive = false
				s.Event("model-dropped", m.name, fmt.Sprintf("model says admitted=%v, engine %v", v, admitted))
			} else {
				anyAlive = true
			}
			if !v {
				s.Nontrivial()
			}
		}
		// abstract state: per level the fill of the current window
		var ab []string
		for _, m := range models {
			if m.alive {
				for _, k := range sortedKeys(m.st) {
					ab = append(ab, fmt.Sprintf("%s:%d", k, m.st[k].count))
				}
				break
			}
		}
		s.State(strings.Join(ab, ","))
		if !anyAlive {
			if admitted {
				s.Violate("R1", "bound-exceeded", "request %s (quota %s, group %q) at %v was admitted although the quota or an ancestor is full for the current window under every reading of the window (%s)",
					id, levels[target].id, grp, time.Duration(t-s.Start.UnixNano()), strings.Join(verdicts, " "))
			} else {
				s.Violate("R2", "spurious-refusal", "request %s (quota %s, group %q) at %v was refused although neither the quota nor an ancestor is full under any reading of the window (%s)",
					id, levels[target].id, grp, time.Duration(t-s.Start.UnixNano()), strings.Join(verdicts, " "))
			}
		}
	}
}

func limiterFlow(name, url, quotaID string) flowDef {
	return flowDef{
		Name: name, URL: url,
		Procs: []procDef{
			{Key: "lim", Type: "Limiter", Params: [][2]string{{"quota_id", quotaID}}},
			{Key: "gen", Type: "GenerateResponse", Params: [][2]string{{"status", "429"}, {"body", "limited"}}},
		},
		Req: []connDef{
			{FromStream: "start", ToProc: "lim"},
			{FromProc: "lim", Cond: "below_limit", ToStream: "end"},
			{FromProc: "lim", Cond: "above_limit", ToProc: "gen"},
		},
		Resp: []connDef{{FromProc: "gen", ToStream: "end"}},
	}
}

func c01QuotaYAML(levels []c01level) string {
	var b strings.Builder
	wr := func(indent string, l c01level, parent string) {
		fmt.Fprintf(&b, "%s- id: %s\n", indent, l.id)
		if parent != "" {
			fmt.Fprintf(&b, "%s  parent_id: %s\n", indent, parent)
		}
		fmt.Fprintf(&b, "%s  filter:\n%s    url: %s\n", indent, indent, l.url)
		if l.pct > 0 {
			fmt.Fprintf(&b, "%s  strategy:\n%s    allocation_percentage: %d\n", indent, indent, l.pct)
			return
		}
		unit, n := "second", int64(l.win/time.Second)
		if l.win%time.Minute == 0 {
			unit, n = "minute", int64(l.win/time.Minute)
		}
		kind := "fixed_window"
		if l.cost {
			kind = "fixed_window_custom_counter"
		}
		fmt.Fprintf(&b, "%s  strategy:\n%s    %s:\n%s      max: %d\n%s      interval: %d\n%s      interval_unit: %s\n",
			indent, indent, kind, indent, l.max, indent, n, indent, unit)
		if l.cost {
			fmt.Fprintf(&b, "%s      counter_value_path: '$.request.headers[\"x-cost\"]'\n", indent)
		}
		if l.group {
			fmt.Fprintf(&b, "%s      group_by_header: x-grp\n", indent)
		}
	}
	b.WriteString("quotas:\n")
	wr("  ", levels[0], "")
	if len(levels) > 1 {
		b.WriteString("internal_limits:\n")
		for i := 1; i < len(levels); i++ {
			wr("  ", levels[i], levels[levels[i].parent].id)
		}
	}
	return b.String()
}
