package scen

import (
	"fmt"
	"os"
	"path/filepath"
	"strings"
	"sync"
	"time"

	"lunar/engine/config"
	"lunar/engine/routing"
	"lunar/engine/services"

	"github.com/negasus/haproxy-spoe-go/message"
	"github.com/negasus/haproxy-spoe-go/payload/kv"
	"github.com/negasus/haproxy-spoe-go/request"

	"verifsim/kernel"
)

// C18P - policy mode under the race detector: several goroutines send SPOE
// frames (a request, then a response of some status) through the real message
// handler of a policy-mode manager built from a policies file by the gateway's
// own loader; the remedy plugins of services.PoliciesServices - caching,
// response-based throttling, strategy-based throttling with groups,
// concurrency-based throttling, a strategy-based queue and retry - keep state
// (caches, counters, queues, slot maps, vacuum goroutines) that all transactions
// share. A policy reload may run beside them. The monitor is the race detector,
// as in C18R / C18A. DESIGN.md section 4, C18.

func init() { register(&Scenario{ID: "C18P", Run: runC18P}) }

func c18pPolicies(on map[string]bool, marker int, exportDir string) string {
	var b strings.Builder
	b.WriteString("global:\n  remedies:\n")
	rem := func(name, body string) {
		if on[name] {
			fmt.Fprintf(&b, "    - name: %s-%d\n      enabled: true\n      config:\n%s", name, marker, body)
		}
	}
	rem("caching", "        caching:\n          ttl_seconds: 2\n          max_record_size_bytes: 1048576\n          max_cache_size_megabytes: 1\n")
	rem("response-throttling", "        response_based_throttling:\n          quota_group: 1\n          retry_after_header: Retry-After\n          retry_after_type: relative_seconds\n          relevant_statuses: [429, 503]\n")
	rem("strategy-throttling", "        strategy_based_throttling:\n          allowed_request_count: 3\n          window_size_in_seconds: 1\n          response_status_code: 429\n          group_quota_allocation:\n            group_by:\n              header_name: x-grp\n            default: allow\n            groups:\n              - group_header_value: a\n                allocation_percentage: 50\n              - group_header_value: b\n                allocation_percentage: 50\n")
	rem("concurrency-throttling", "        concurrency_based_throttling:\n          max_concurrent_requests: 2\n          response_status_code: 429\n")
	rem("queue", "        strategy_based_queue:\n          allowed_request_count: 2\n          window_size_in_seconds: 1\n          response_status_code: 429\n          ttl_seconds: 2\n          queue_size: 3\n")
	rem("retry", "        retry:\n          attempts: 2\n          initial_cooldown_seconds: 1\n          cooldown_multiplier: 1\n          conditions:\n            status_code:\n              - from: 500\n                to: 599\n")
	b.WriteString("  diagnosis:")
	if !on["har"] && !on["metrics"] {
		b.WriteString(" []")
	}
	b.WriteString("\n")
	if on["har"] {
		fmt.Fprintf(&b, "    - name: har-%d\n      enabled: true\n      export: file\n      config:\n        har_exporter:\n          transaction_max_size: 5000\n          obfuscate:\n            enabled: true\n", marker)
	}
	if on["metrics"] {
		fmt.Fprintf(&b, "    - name: metrics-%d\n      enabled: true\n      export: prometheus\n      config:\n        metrics_collector:\n          request_header_names: [x-grp]\n          response_header_names: [Retry-After]\n", marker)
	}
	b.WriteString("endpoints: []\n")
	if on["har"] || on["metrics"] {
		fmt.Fprintf(&b, "exporters:\n  file:\n    file_dir: %s\n    file_name: out.har\n  prometheus:\n    bucket_boundaries: [1, 5, 10]\n", exportDir)
	}
	return b.String()
}

func runC18P(s *kernel.Sim) {
	tp := s.Tape
	nTasks := tp.Range(2, 5)
	density := tp.Range(1, 8)
	maxDel := []int{3, 50, 2000}[tp.Choose(3)]
	names := []string{"caching", "response-throttling", "strategy-throttling", "concurrency-throttling", "queue", "retry", "har", "metrics"}
	on := map[string]bool{}
	for _, n := range names {
		on[n] = tp.Chance(2, 3)
	}
	on[names[tp.Choose(len(names))]] = true
	on[names[tp.Choose(len(names))]] = true
	withReload := tp.Chance(1, 3)
	type step struct {
		url    int
		grp    string
		status int64
	}
	urls := [][2]string{{"a.com", "/r"}, {"a.com", "/r/1"}, {"b.io", "/x"}}
	plans := make([][]step, nTasks)
	for i := range plans {
		for k := tp.Range(1, 4); k > 0; k-- {
			plans[i] = append(plans[i], step{tp.Choose(len(urls)), []string{"", "a", "b"}[tp.Choose(3)], []int64{200, 200, 429, 500, 503}[tp.Choose(5)]})
		}
	}
	var loaded []string
	for _, n := range names {
		if on[n] {
			loaded = append(loaded, n)
		}
	}
	s.Knobs["tasks"], s.Knobs["remedies"], s.Knobs["reload"], s.Knobs["density_8ths"], s.Knobs["max_delay_us"] = nTasks, loaded, withReload, density, maxDel
	s.MixSig(fmt.Sprint(plans, loaded, withReload, density, maxDel))
	s.LogEngineEvents = false

	dir := runTmp(s)
	polPath := filepath.Join(dir, "policies.yaml")
	os.Setenv("LUNAR_PROXY_POLICIES_CONFIG", polPath)
	os.Setenv("LUNAR_PROXY_CONFIG_DIR", dir)
	kernel.InstallRaceHooks(s.Seed, density, maxDel) // before any engine goroutine exists
	installHAProxy()
	if err := os.WriteFile(polPath, []byte(c18pPolicies(on, 0, dir)), 0o644); err != nil {
		s.HarnessErr = err.Error()
		return
	}
	res, err := config.BuildInitialFromFile()
	if err != nil {
		s.HarnessErr = "BuildInitialFromFile: " + err.Error() + "\n" + c18pPolicies(on, 0, dir)
		return
	}
	svc, err := services.Initialize(c17nullWriter{}, 10*time.Second, res.Initial.Config.Exporters)
	if err != nil {
		s.HarnessErr = "services.Initialize: " + err.Error()
		return
	}
	handler := routing.Handler(routing.NewVerifPoliciesManager(res, svc))
	var wg sync.WaitGroup
	for i := range plans {
		i := i
		wg.Add(1)
		go func() {
			defer wg.Done()
			for k, st := range plans[i] {
				id := fmt.Sprintf("t%d.%d", i, k)
				h := map[string]string{}
				if st.grp != "" {
					h["x-grp"] = st.grp
				}
				if spoeRequest(handler, id, urls[st.url][0], urls[st.url][1], h) != "pass" {
					continue
				}
				time.Sleep(time.Duration(1+k) * 100 * time.Microsecond)
				hdr := ""
				if st.status == 429 || st.status == 503 {
					hdr = "Retry-After: 2\r\n"
				}
				pk := kv.NewKV()
				pk.Add("id", id)
				pk.Add("sequence_id", id)
				pk.Add("method", "GET")
				pk.Add("url", urls[st.url][0]+urls[st.url][1])
				pk.Add("status", st.status)
				pk.Add("headers", hdr)
				pk.Add("body", []byte("body-"+id))
				handler(&request.Request{Messages: &message.Messages{&message.Message{Name: "lunar-on-response", KV: pk}}})
			}
		}()
	}
	if withReload {
		wg.Add(1)
		go func() {
			defer wg.Done()
			time.Sleep(150 * time.Microsecond)
			os.WriteFile(polPath, []byte(c18pPolicies(on, 1, dir)), 0o644)
			_ = res.Accessor.ReloadFromFile()
		}()
	}
	wg.Wait()
	// the plugins' timers, vacuum and queue goroutines run for a while too
	time.Sleep(40 * time.Second)
	s.Nontrivial()
	s.Rule("R1")
	s.FaultFired("overlapping_policy_mode_transactions")
	if withReload {
		s.FaultFired("policy_reload_during_transactions")
	}
}
