package scen

import (
	"bytes"
	"errors"
	"io"
	"net/http"
	"sort"
	"strings"
	"sync"
	"time"
)

// simHAProxy stands in for HAProxy's admin API, health check and stats page
// behind http.DefaultClient. It records managed endpoints and fails on
// command of the scenario. No sockets are involved.
type simHAProxy struct {
	mu        sync.Mutex
	Managed   map[string]bool
	ManageAll bool
	Calls     []string
	// Fail decides per call whether to fail: "" = ok, "err" = transport error,
	// "500" = HTTP 500.
	Fail     func(method, path, body string) string
	StatsCSV string
	// Stats, when set, answers a request for the statistics page (status, body).
	Stats func() (int, string)
	// Delay, when set, says how long the answer to this call takes.
	Delay func(method, path string) time.Duration
}

func installHAProxy() *simHAProxy {
	h := &simHAProxy{Managed: map[string]bool{}}
	http.DefaultClient.Transport = h
	return h
}

func (h *simHAProxy) RoundTrip(req *http.Request) (*http.Response, error) {
	body := ""
	if req.Body != nil {
		b, _ := io.ReadAll(req.Body)
		body = string(b)
	}
	path := req.URL.Path
	if h.Delay != nil {
		// a slow admin API: the answer takes (fake) time; no lock of the stub is held meanwhile
		if d := h.Delay(req.Method, path); d > 0 {
			time.Sleep(d)
		}
	}
	h.mu.Lock()
	defer h.mu.Unlock()
	h.Calls = append(h.Calls, req.Method+" "+path+" "+body)
	mode := ""
	if h.Fail != nil {
		mode = h.Fail(req.Method, path, body)
	}
	resp := func(code int, b string) (*http.Response, error) {
		return &http.Response{StatusCode: code, Status: http.StatusText(code), Body: io.NopCloser(bytes.NewBufferString(b)),
			Header: http.Header{}, Request: req, Proto: "HTTP/1.1", ProtoMajor: 1, ProtoMinor: 1}, nil
	}
	switch mode {
	case "err":
		return nil, errors.New("simHAProxy: connection refused (injected)")
	case "500":
		return resp(500, "injected failure")
	}
	switch {
	case strings.HasSuffix(path, "/managed_endpoint"):
		if req.Method == http.MethodPut {
			h.Managed[body] = true
		} else if req.Method == http.MethodDelete {
			delete(h.Managed, body)
		}
	case strings.HasSuffix(path, "/manage_all"):
		h.ManageAll = true
	case strings.HasSuffix(path, "/unmanage_all"), strings.HasSuffix(path, "/unmanage_global"):
		h.ManageAll = false
	case strings.Contains(path, "stats") || strings.Contains(path, "metrics") || strings.Contains(req.URL.RawQuery, "csv"):
		if h.Stats != nil {
			fn := h.Stats
			h.mu.Unlock()
			code, b := fn()
			h.mu.Lock()
			return resp(code, b)
		}
		return resp(200, h.StatsCSV)
	}
	return resp(200, "ok")
}

func (h *simHAProxy) ManagedList() []string {
	h.mu.Lock()
	defer h.mu.Unlock()
	var out []string
	for k := range h.Managed {
		out = append(out, k)
	}
	sort.Strings(out)
	return out
}
