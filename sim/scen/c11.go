package scen

import (
	"fmt"
	"os"
	"path/filepath"
	"strings"
	"time"

	"lunar/engine/config"

	"verifsim/kernel"
)

// C11 — a transaction sees one policy version from request to response.
// Real TxnPoliciesAccessor with its two MapVacuum goroutines (5 s tick, 30 s
// retention) on the fake clock; reloads go through the real file loader and
// the simulated HAProxy admin API. DESIGN.md section 4, C11.

func init() { register(&Scenario{ID: "C11", Run: runC11}) }

const c11Retention = 30 * time.Second

func c11Policies(marker int) string {
	return fmt.Sprintf(`global:
  remedies:
    - name: marker-%d
      enabled: false
      config:
        fixed_response:
          status_code: 418
  diagnosis: []
endpoints:
  - url: a.com/v%d
    method: GET
    remedies:
      - name: ep-marker-%d
        enabled: true
        config:
          fixed_response:
            status_code: 418
    diagnosis: []
`, marker, marker%3, marker)
}

func c11Marker(p *config.PoliciesData) string {
	if p == nil || len(p.Config.Global.Remedies) == 0 {
		return ""
	}
	return p.Config.Global.Remedies[0].Name
}

type c11txn struct {
	id      string
	reqT    time.Duration
	reqM    string
	reqSeq  uint64
	respond bool
}

func runC11(s *kernel.Sim) {
	tp := s.Tape
	// transaction ids are chosen by clients too (x-lunar-req-id): in a third of the
	// runs they are long and differ only after their first 36 characters
	idPrefix := "t"
	if tp.Chance(1, 3) {
		idPrefix = "billing-service.eu-west-1.prod.invoice-sync-"
	}
	s.Knobs["transaction_id_prefix"] = idPrefix
	// lock attempts that do not wait (TryLock / TryRLock) may fail as if another
	// goroutine - a pinning transaction, a reload, a vacuum pass - held the lock
	s.FaultOn = func(point string, _ []string) error {
		if point == "trylock" && tp.Chance(1, 3) {
			s.FaultFired("non_waiting_lock_attempt_met_a_held_lock")
			return fmt.Errorf("contended")
		}
		return nil
	}
	nOps := tp.Range(6, 40)
	concP := tp.Choose(4)
	siteOn, density := lockSites(tp)
	s.Knobs["ops"], s.Knobs["conc"], s.Knobs["lock_sites"] = nOps, concP, density

	dir := runTmp(s)
	polPath := filepath.Join(dir, "policies.yaml")
	os.Setenv("LUNAR_PROXY_POLICIES_CONFIG", polPath)
	os.Setenv("LUNAR_PROXY_CONFIG_DIR", dir)
	hp := installHAProxy()
	failNext := false
	slowFor := time.Duration(0) // the next call to HAProxy's admin API takes this long to answer
	hp.Fail = func(method, path, body string) string {
		if failNext && !strings.Contains(path, "healthcheck") {
			return "500"
		}
		return ""
	}
	hp.Delay = func(method, path string) time.Duration {
		if d := slowFor; d > 0 && !strings.Contains(path, "healthcheck") {
			slowFor = 0
			return d
		}
		return 0
	}
	marker := 0
	writePol := func(m int) {
		if err := os.WriteFile(polPath, []byte(c11Policies(m)), 0o644); err != nil {
			s.HarnessErr = err.Error()
		}
	}
	writePol(0)
	res, err := config.BuildInitialFromFile()
	if err != nil {
		s.HarnessErr = "BuildInitialFromFile: " + err.Error()
		return
	}
	acc := res.Accessor
	inGroup := false
	s.YieldOn = func(point string, a []string, harness bool) bool {
		return harness && inGroup && isLockPoint(point) && siteOn(a[0])
	}

	current := "marker-0"            // reference: marker of the newest successfully applied version
	alsoCurrent := map[string]bool{} // after overlapping changes: every marker that may be the newest
	lastLoaded := "marker-0"
	var applySeqs []uint64 // sequence numbers at which `current` changed (start of the apply)
	var open []*c11txn
	n := 0
	lookup := func(id string) string {
		p := acc.GetTxnPoliciesData(config.TxnID(id))
		m := c11Marker(p)
		s.Rule("R4")
		if m == "" {
			s.Violate("R4", "empty-policies", "GetTxnPoliciesData(%s) returned empty policies while versions exist", id)
		}
		return m
	}
	type op struct {
		kind string // req, resp, apply, apply-fail, revert-free, revert-last
		t    *c11txn
		run  func()
	}
	for i := 0; i < nOps && !s.Failed(); i++ {
		now := s.Now()
		targets := []time.Duration{now + time.Millisecond, now + time.Duration(1+tp.Choose(6000))*time.Millisecond,
			(now/(5*time.Second) + 1) * 5 * time.Second}
		for _, t := range open {
			e := t.reqT + c11Retention
			if e > now {
				targets = append(targets, e, e-1, e-time.Millisecond, e-5*time.Second, e+1, e+6*time.Second)
			}
		}
		s.SleepUntil(targets[tp.Choose(len(targets))])
		if tp.Chance(1, 10) {
			// a reload whose HAProxy step takes several seconds (many endpoints, a slow
			// admin API). Transactions first seen in the meantime belong to the version
			// that is still current; it has to be kept for the whole retention period
			// after it was superseded - not after the reload began
			d := time.Duration(tp.Range(2, 12)) * time.Second
			marker++
			writePol(marker)
			slowFor = d
			var aerr error
			done := false
			startSeq := s.Seq()
			at := s.Spawn(fmt.Sprintf("slow-apply-%d", marker), func() { aerr = acc.ReloadFromFile(); done = true })
			for x := 0; x < 50 && !done && at.Parked(); x++ {
				s.Resume(at) // runs on into the slow answer
			}
			nDuring := tp.Range(1, 2)
			for j := 0; j < nDuring && !done; j++ {
				s.Sleep(d / time.Duration(nDuring+1))
				if done {
					break
				}
				n++
				tx := &c11txn{id: fmt.Sprintf("%s%d", idPrefix, n), reqT: s.Now(), reqSeq: s.Seq()}
				tx.reqM = lookup(tx.id)
				s.Event("txn_request", tx.id, tx.reqM, "during a slow apply")
				open = append(open, tx)
			}
			for x := 0; x < 400 && !done; x++ {
				if at.Parked() {
					s.Resume(at)
				} else {
					s.Sleep(500 * time.Millisecond)
				}
			}
			if !done {
				s.Violate("R2", "apply-did-not-return", "ReloadFromFile with a HAProxy admin API that takes %v to answer has not returned after %v", d, 200*time.Second)
				return
			}
			if aerr != nil {
				s.Violate("R2", "apply-failed", "ReloadFromFile failed without an injected fault: %v", aerr)
				return
			}
			s.Event("apply-slow", fmt.Sprintf("marker-%d", marker), d.String())
			s.FaultFired("slow_haproxy_step_during_apply")
			current = fmt.Sprintf("marker-%d", marker)
			lastLoaded = current
			alsoCurrent = map[string]bool{}
			applySeqs = append(applySeqs, startSeq)
			continue
		}
		k := 1
		if concP > 0 && tp.Chance(concP, 6) {
			k = tp.Range(2, 4)
		}
		var ops []*op
		applyInGroup := false
		configOps := 0
		used := map[*c11txn]bool{}
		for j := 0; j < k; j++ {
			c := tp.Weighted([]int{5, 5, 3, 1, 1, 1})
			switch {
			case c == 0 || (c == 1 && len(open) == 0):
				n++
				t := &c11txn{id: fmt.Sprintf("%s%d", idPrefix, n)}
				ops = append(ops, &op{kind: "req", t: t})
			case c == 1:
				t := open[tp.Choose(len(open))]
				if !used[t] {
					used[t] = true
					ops = append(ops, &op{kind: "resp", t: t})
				}
			default:
				// an admin call and a fail-safe revert (own goroutine) can overlap; two
				// configuration changes at most, and at most one of them an apply (the
				// policies file is written by the operator, one writer)
				kind := []string{"apply", "apply-fail", "revert-free", "revert-last"}[c-2]
				if applyInGroup && (configOps >= 2 || strings.HasPrefix(kind, "apply")) {
					continue
				}
				if strings.HasPrefix(kind, "apply") {
					applyInGroup = true
				}
				configOps++
				ops = append(ops, &op{kind: kind})
			}
		}
		before := current
		startSeq := s.Seq()
		acceptable := map[string]bool{current: true}
		lastLoadedBefore := lastLoaded
		installed := false
		for m := range alsoCurrent {
			acceptable[m] = true
		}
		for _, o := range ops {
			o := o
			switch o.kind {
			case "req":
				o.run = func() {
					o.t.reqT, o.t.reqSeq = s.Now(), s.Seq()
					o.t.reqM = lookup(o.t.id)
					s.Event("txn_request", o.t.id, o.t.reqM)
				}
			case "resp":
				o.run = func() {
					m := lookup(o.t.id)
					s.Event("txn_response", o.t.id, m)
					age := s.Now() - o.t.reqT
					if age <= c11Retention { // the last instant of the period is within it
						s.Rule("R1")
						s.Nontrivial()
						if m != o.t.reqM {
							s.Violate("R1", "version-changed-mid-transaction", "transaction %s saw %s at its request (t=%v) and %s at its response %v later (retention %v)",
								o.t.id, o.t.reqM, o.t.reqT, m, age, c11Retention)
						}
					}
				}
			case "apply", "apply-fail":
				o.run = func() {
					marker++
					writePol(marker)
					failNext = o.kind == "apply-fail"
					err := acc.ReloadFromFile()
					failNext = false
					s.Event(o.kind, fmt.Sprintf("marker-%d", marker), fmt.Sprint(err))
					if o.kind == "apply-fail" {
						s.FaultFired("haproxy_failure_during_apply")
						if err == nil {
							s.Violate("R3", "failed-apply-reported-success", "HAProxy answered 500 during apply but ReloadFromFile returned nil")
						}
						// the file loader persisted the "loaded" copies before the failure
						lastLoaded = fmt.Sprintf("marker-%d", marker)
						return
					}
					if err != nil {
						s.Violate("R2", "apply-failed", "ReloadFromFile failed without an injected fault: %v", err)
						return
					}
					current = fmt.Sprintf("marker-%d", marker)
					lastLoaded = current
					acceptable[current] = true
					installed = true
				}
			case "revert-free", "revert-last":
				o.run = func() {
					var err error
					if o.kind == "revert-free" {
						err = acc.RevertToDiagnosisFree()
					} else {
						err = acc.RevertToLastLoaded()
					}
					s.Event(o.kind, lastLoaded, fmt.Sprint(err))
					if err == nil {
						current = lastLoaded
						acceptable[current] = true
						installed = true
						// a revert overlapping an apply may have read the loaded-policies
						// file before or after the apply persisted it
						acceptable[lastLoadedBefore] = true
					}
				}
			}
		}
		if len(ops) == 1 {
			ops[0].run()
		} else if len(ops) > 1 {
			inGroup = true
			for j, o := range ops {
				s.Spawn(fmt.Sprintf("op%d.%d.%s", i, j, o.kind), o.run)
			}
			for st := 0; st < 4000; st++ {
				p := s.ParkedTasks()
				if len(p) == 0 {
					break
				}
				s.Resume(p[tp.Choose(len(p))])
			}
			inGroup = false
			s.FaultFired("concurrent_group")
		}
		if current != before {
			applySeqs = append(applySeqs, startSeq)
		}
		// with two overlapping configuration changes the one installed last wins,
		// which the harness cannot observe: every marker touched stays acceptable
		// until the next change that runs alone
		if configOps >= 2 {
			for m := range acceptable {
				alsoCurrent[m] = true
			}
			s.FaultFired("overlapping_configuration_changes")
		} else if configOps == 1 && len(ops) == 1 && installed {
			alsoCurrent = map[string]bool{} // a change that ran alone and installed a version settles it
		}
		// judge fresh transactions of this step
		for _, o := range ops {
			switch o.kind {
			case "req":
				s.Rule("R2")
				ok := o.t.reqM == current || alsoCurrent[o.t.reqM] || (len(ops) > 1 && acceptable[o.t.reqM])
				if !ok {
					s.Violate("R2", "new-transaction-on-old-version", "transaction %s first seen at %v got %s, the newest applied version is %s", o.t.id, o.t.reqT, o.t.reqM, current)
				}
				open = append(open, o.t)
			case "resp":
				for x, t := range open {
					if t == o.t {
						open = append(open[:x], open[x+1:]...)
						break
					}
				}
			}
		}
		s.State(fmt.Sprintf("open%d/v%s", len(open), current))
	}
}
