package scen

import (
	"fmt"
	"strings"
	"time"

	"lunar/engine/config"
	lunarMessages "lunar/engine/messages"
	"lunar/engine/runner"
	"lunar/engine/services"
	"lunar/engine/services/remedies"
	sharedConfig "lunar/shared-model/config"
	"lunar/toolkit-core/urltree"

	"verifsim/kernel"
)

// C17D - the retry bound through the policy-mode dispatcher: one logical call is
// re-sent (fresh transaction id, same sequence id) for as long as the gateway
// hands out x-lunar-retry-after. The retry-eligible answer is either a provider
// response (DispatchOnResponse) or an early response of the gateway itself
// (a fixed-response remedy answering on the request path, DispatchOnRequest).
// Real runner, real services.PoliciesServices. DESIGN.md section 4, C17.

func init() { register(&Scenario{ID: "C17D", Run: runC17D}) }

type c17nullWriter struct{}

func (c17nullWriter) Write(b []byte) (int, error) { return len(b), nil }
func (c17nullWriter) Close() error                { return nil }

func runC17D(s *kernel.Sim) {
	tp := s.Tape
	attempts := tp.Range(1, 3)
	cooldown := tp.Range(0, 2)
	mult := tp.Range(1, 2)
	earlyStatus := []int{418, 503, 429}[tp.Choose(3)]
	nOps := tp.Range(6, 30)
	s.Knobs["attempts"], s.Knobs["cooldown_s"], s.Knobs["multiplier"], s.Knobs["early_status"], s.Knobs["ops"] = attempts, cooldown, mult, earlyStatus, nOps
	s.LogEngineEvents = false
	global := sharedConfig.Global{
		Remedies: []sharedConfig.Remedy{
			{Name: "early", Enabled: true, Config: sharedConfig.RemedyConfig{FixedResponse: &sharedConfig.FixedResponseConfig{StatusCode: earlyStatus}}},
			{Name: "retry", Enabled: true, Config: sharedConfig.RemedyConfig{Retry: &sharedConfig.RetryConfig{
				Attempts: attempts, InitialCooldownSeconds: cooldown, CooldownMultiplier: mult,
				Conditions: sharedConfig.RetryConfigConditions{StatusCode: []sharedConfig.Range[int]{{From: 500, To: 599}, {From: 418, To: 418}, {From: 429, To: 429}}},
			}}},
		},
		Diagnosis: []sharedConfig.Diagnosis{},
	}
	policyTree := urltree.NewEndpointTree[config.EndpointPolicy]()
	policies := sharedConfig.PoliciesConfig{Global: global, Accounts: map[sharedConfig.AccountID]sharedConfig.Account{}}
	svc, err := services.Initialize(c17nullWriter{}, 10*time.Second, sharedConfig.Exporters{})
	if err != nil {
		s.HarnessErr = "services.Initialize: " + err.Error()
		return
	}
	worker := runner.NewDiagnosisWorker()

	type call struct {
		open  bool
		asked int
		n     int
	}
	calls := map[string]*call{}
	seqs := []string{"s1", "s2", "s3"}
	statuses := []int{500, 503, 429, 200, 404}
	for op := 0; op < nOps && !s.Failed(); op++ {
		s.Sleep(time.Duration(1+tp.Choose(1500)) * time.Millisecond)
		seq := seqs[tp.Choose(len(seqs))]
		c := calls[seq]
		if c == nil {
			c = &call{}
			calls[seq] = c
		}
		id := seq // a new logical call
		if c.open {
			c.n++
			id = fmt.Sprintf("%s-resend-%d", seq, c.n)
		} else {
			c.open, c.asked, c.n = true, 0, 0
		}
		early := tp.Chance(1, 2)
		hdr := map[string]string{"host": "a.com"}
		if early {
			hdr["early-response"] = "true"
		}
		req := lunarMessages.OnRequest{ID: id, SequenceID: seq, Method: "GET", Scheme: "http", URL: "a.com/r", Path: "/r", Headers: hdr, Time: time.Now()}
		acts, derr := runner.DispatchOnRequest(req, policyTree, &policies, svc, worker)
		if derr != nil {
			s.Violate("R1", "dispatch-error", "DispatchOnRequest(%s): %v", id, derr)
			return
		}
		status := earlyStatus
		text := fmt.Sprint(acts)
		isEarly := false
		for _, a := range acts {
			if a.Name == "return_early_response" {
				isEarly = true
			}
		}
		if isEarly != early {
			s.Violate("R1", "early-response-presence", "transaction %s: early response returned=%v, fixed-response remedy triggered=%v", id, isEarly, early)
			return
		}
		if !early {
			status = statuses[tp.Choose(len(statuses))]
			racts, rerr := runner.DispatchOnResponse(lunarMessages.OnResponse{ID: id, SequenceID: seq, Method: "GET", URL: "a.com/r", Status: status,
				Headers: map[string]string{}, Time: time.Now()}, policyTree, &policies.Global, svc, worker)
			if rerr != nil {
				s.Violate("R1", "dispatch-error", "DispatchOnResponse(%s): %v", id, rerr)
				return
			}
			text = fmt.Sprint(racts)
		}
		asked := strings.Contains(text, remedies.LunarRetryAfterHeaderName)
		inCond := status >= 500 && status <= 599 || status == 418 || status == 429
		s.Event("answer", seq, fmt.Sprintf("txn=%s early=%v status=%d retry_asked=%v", id, early, status, asked))
		s.Rule("R3")
		if !inCond && asked {
			s.Violate("R3", "retry-outside-conditions", "sequence %s: status %d is outside the retry conditions but a retry was asked for", seq, status)
		}
		s.Rule("R1")
		if asked {
			c.asked++
			if c.asked > attempts {
				s.Violate("R1", "more-retries-than-attempts", "sequence %s was asked to retry %d times in one logical call (early responses: the gateway's own answers count too), attempts=%d", seq, c.asked, attempts)
			}
			s.Nontrivial()
		} else {
			c.open = false // final answer: the interceptor stops re-sending
		}
		s.State(fmt.Sprintf("%d/%d", c.asked, attempts))
	}
}
