package scen

import (
	"verifsim/kernel"
)

// lockSites draws this run's subset of instrumented lock/unlock sites that are
// scheduling points (swarm: density 0, 1/8, 1/2 or all; 0 on the tape = none).
func lockSites(tp *kernel.Tape) (func(site string) bool, string) {
	density := []int{0, 1, 4, 8}[tp.Choose(4)]
	salt := uint64(tp.Choose(1 << 16))
	name := []string{"none", "1/8", "1/2", "all"}[map[int]int{0: 0, 1: 1, 4: 2, 8: 3}[density]]
	return func(site string) bool {
		if density == 0 {
			return false
		}
		h := salt*0x9E3779B97F4A7C15 + 0xcbf29ce484222325
		for i := 0; i < len(site); i++ {
			h ^= uint64(site[i])
			h *= 1099511628211
		}
		h ^= h >> 29
		return int(h%8) < density
	}, name
}

func isLockPoint(p string) bool { return p == "lock" || p == "unlock" }

// isSchedPoint also counts the statement-level points the instrumenter puts into
// the Execute methods of the flow processors.
func isSchedPoint(p string) bool { return p == "lock" || p == "unlock" || p == "stmt" }
