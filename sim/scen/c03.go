package scen

import (
	"fmt"
	"net/url"
	"sort"
	"strings"

	lunarMessages "lunar/engine/messages"
	"lunar/engine/streams"
	streamconfig "lunar/engine/streams/config"
	streamtypes "lunar/engine/streams/types"

	"verifsim/kernel"
)

// C03 — a flow runs for a transaction exactly when its own filter accepts it,
// independent of the load order. The load order (production: Go map iteration,
// re-drawn at every start and reload) is owned by the simulator through the
// verifhook.Order seam; loads and reloads are events of the history.
// DESIGN.md section 4, C03.

func init() { register(&Scenario{ID: "C03", Run: runC03}) }

type c03flow struct {
	name    string
	host    string
	segs    []string // literal, "{p}"; trailing wildcard in `wild`
	wild    bool
	slash   bool // the filter URL is written with a trailing slash
	methods []string
	header  string // required value of x-h ("" = none)
	header2 string // a second listed value for the same key: alternatives
	query   string // required value of q ("" = none)
	status  []int
}

func (f c03flow) url() string {
	u := f.host
	if len(f.segs) > 0 {
		u += "/" + strings.Join(f.segs, "/")
	}
	if f.wild {
		u += "/*"
	}
	if f.slash && !f.wild {
		u += "/" // another spelling of the same pattern
	}
	return u
}

type c03txn struct {
	method string
	host   string
	segs   []string
	header string
	query  string
	status int
}

func (t c03txn) path() string {
	if len(t.segs) == 0 {
		return ""
	}
	return "/" + strings.Join(t.segs, "/")
}

// urlMatch is the independent matcher: 1 = matches, 0 = does not, -1 = the
// trailing wildcard would have to match the empty suffix, or a path parameter an
// empty segment (left undecided).
func (f c03flow) urlMatch(t c03txn) int {
	if f.host != t.host {
		return 0
	}
	if len(t.segs) < len(f.segs) {
		return 0
	}
	yes := 1
	for i, s := range f.segs {
		if s == "{p}" {
			if t.segs[i] == "" {
				yes = -1 // a path parameter against an empty segment ("//"): left undecided
			}
			continue
		}
		if s != t.segs[i] {
			return 0
		}
	}
	if !f.wild {
		if len(t.segs) == len(f.segs) {
			return yes
		}
		return 0
	}
	if len(t.segs) == len(f.segs) {
		return -1
	}
	return yes
}

// accepts: independent filter verdict for a direction; reason names the first
// failing component. und=true when undecided (see urlMatch).
func (f c03flow) accepts(t c03txn, request bool) (ok bool, und bool, reason string) {
	switch f.urlMatch(t) {
	case 0:
		return false, false, "url"
	case -1:
		und = true
	}
	if len(f.methods) > 0 {
		found := false
		for _, m := range f.methods {
			if m == t.method {
				found = true
			}
		}
		if !found {
			return false, false, "method"
		}
	}
	if request {
		if f.header != "" && !strings.EqualFold(f.header, t.header) && !(f.header2 != "" && strings.EqualFold(f.header2, t.header)) {
			return false, false, "header"
		}
		if f.query != "" {
			// reference semantics: the key must be present in the query string (even
			// with an empty value); a required value must equal its first value
			// (a neighbouring pair that cannot be decoded takes nothing away from it)
			qv, _ := url.ParseQuery(t.query)
			vals, present := qv["q"]
			if !present || (f.query != "*" && vals[0] != f.query) {
				return false, false, "query"
			}
			if f.query == "*" && vals[0] != "" {
				// a requirement without a value: the key is there, whether a non-empty
				// value satisfies it is not fixed by the property - not judged
				und = true
			}
		}
	} else if len(f.status) > 0 {
		found := false
		for _, c := range f.status {
			if c == t.status {
				found = true
			}
		}
		if !found {
			return false, false, "status"
		}
	}
	return true, und, ""
}

// shadowed: the generous exemption for the "if" direction — some configured
// pattern has a literal segment equal to the URL's segment at a position where
// this flow's pattern has a parameter or is inside its wildcard part, and
// agrees with the URL before that position.
func shadowed(f c03flow, all []c03flow, t c03txn) bool {
	for _, o := range all {
		if o.host != t.host {
			continue
		}
		for i := 0; i < len(o.segs) && i < len(t.segs); i++ {
			agree := true
			for j := 0; j < i; j++ {
				if o.segs[j] != "{p}" && o.segs[j] != t.segs[j] {
					agree = false
				}
			}
			if !agree {
				break
			}
			if o.segs[i] == "{p}" || o.segs[i] != t.segs[i] {
				continue
			}
			// o has the literal t.segs[i] at position i
			if i >= len(f.segs) || f.segs[i] == "{p}" {
				return true
			}
		}
	}
	return false
}

func (f c03flow) yaml() string {
	d := flowDef{
		Name: f.name, URL: f.url(), Methods: f.methods, Status: f.status,
		// an inert, observable body: a Filter that routes both outcomes to the stream end
		Procs: []procDef{{Key: "mreq", Type: "Filter", Params: [][2]string{{"header", "x-never=1"}}},
			{Key: "mres", Type: "Filter", Params: [][2]string{{"header", "x-never=1"}}}},
		Req:  []connDef{{FromStream: "start", ToProc: "mreq"}, {FromProc: "mreq", Cond: "hit", ToStream: "end"}, {FromProc: "mreq", Cond: "miss", ToStream: "end"}},
		Resp: []connDef{{FromStream: "start", ToProc: "mres"}, {FromProc: "mres", Cond: "hit", ToStream: "end"}, {FromProc: "mres", Cond: "miss", ToStream: "end"}},
	}
	if f.header != "" {
		d.Headers = [][2]string{{"x-h", f.header}}
		if f.header2 != "" {
			d.Headers = append(d.Headers, [2]string{"x-h", f.header2})
		}
	}
	if f.query != "" {
		d.Query = [][2]string{{"q", f.query}} // "*" = key only, no value required
	}
	return d.YAML()
}

func runC03(s *kernel.Sim) {
	tp := s.Tape
	hosts := []string{"a.com", "b.io"}
	alpha := []string{"x", "y", "z", "X"} // "X" and "x" are different literal segments
	nFlows := tp.Range(1, 4)
	var flows []c03flow
	seenURL := map[string]int{}
	for i := 0; i < nFlows; i++ {
		f := c03flow{name: fmt.Sprintf("f%d", i), host: hosts[tp.Weighted([]int{4, 1})]}
		depth := tp.Range(0, 3)
		for d := 0; d < depth; d++ {
			if tp.Chance(1, 4) {
				f.segs = append(f.segs, "{p}")
			} else {
				f.segs = append(f.segs, alpha[tp.Choose(4)])
			}
		}
		f.wild = tp.Chance(1, 3)
		// several flows on one URL are interesting: reuse an earlier URL sometimes
		if i > 0 && tp.Chance(1, 3) {
			o := flows[tp.Choose(len(flows))]
			f.host, f.segs, f.wild = o.host, append([]string(nil), o.segs...), o.wild
		}
		switch tp.Choose(4) {
		case 1:
			f.methods = []string{"GET"}
		case 2:
			f.methods = []string{"POST"}
		case 3:
			f.methods = []string{"GET", "PUT"}
		}
		if tp.Chance(1, 4) {
			f.header = []string{"v1", "v2"}[tp.Choose(2)]
			if tp.Chance(1, 3) { // the same key listed twice: either value qualifies
				f.header2 = []string{"v3", "v1", "v2"}[tp.Choose(3)]
			}
		}
		if tp.Chance(1, 5) {
			f.query = []string{"1", "2", "*"}[tp.Choose(3)]
		}
		if tp.Chance(1, 4) {
			f.status = [][]int{{200}, {500}, {200, 404}}[tp.Choose(3)]
		}
		f.slash = tp.Chance(1, 6)
		seenURL[f.url()]++
		flows = append(flows, f)
	}
	nOrders := tp.Range(2, 4)
	nTxn := tp.Range(6, 24)
	var desc []string
	files := map[string]string{}
	for _, f := range flows {
		files["flows/"+f.name+".yaml"] = f.yaml()
		desc = append(desc, fmt.Sprintf("%s:%s m=%v h=%q|%q q=%q st=%v", f.name, f.url(), f.methods, f.header, f.header2, f.query, f.status))
	}
	s.Knobs["flows"], s.Knobs["orders"], s.Knobs["transactions"] = desc, nOrders, nTxn
	s.MixSig(desc...)
	s.LogEngineEvents = false

	// transactions, biased towards the configured patterns
	var txns []c03txn
	for i := 0; i < nTxn; i++ {
		t := c03txn{method: []string{"GET", "POST", "PUT"}[tp.Choose(3)], header: []string{"", "v1", "v2", "v3"}[tp.Choose(4)],
			query: []string{"", "q=1", "q=2", "q", "q=", "x=1&q=", "x=1", "q=1&d=100%", "n=a;b&q=1"}[tp.Choose(9)], status: []int{200, 500, 404}[tp.Choose(3)]}
		if tp.Chance(3, 4) {
			f := flows[tp.Choose(len(flows))]
			t.host = f.host
			for _, sg := range f.segs {
				if sg == "{p}" {
					sg = []string{"x", "y", "z", "w", "X", "Y", "50%", "%zz"}[tp.Weighted([]int{3, 3, 3, 3, 3, 3, 1, 1})]
				}
				t.segs = append(t.segs, sg)
			}
			switch tp.Choose(5) {
			case 1: // extra trailing segment(s)
				for k := tp.Range(1, 2); k > 0; k-- {
					t.segs = append(t.segs, []string{"x", "y", "z", "w", "X", "Y", "50%", "%zz"}[tp.Weighted([]int{3, 3, 3, 3, 3, 3, 1, 1})])
				}
			case 2: // missing trailing segment
				if len(t.segs) > 0 {
					t.segs = t.segs[:len(t.segs)-1]
				}
			case 3: // one segment replaced
				if len(t.segs) > 0 {
					t.segs[tp.Choose(len(t.segs))] = []string{"x", "y", "z", "w", "X", "Y", "50%", "%zz"}[tp.Weighted([]int{3, 3, 3, 3, 3, 3, 1, 1})]
				}
			}
		} else {
			t.host = hosts[tp.Choose(2)]
			for d := tp.Range(0, 4); d > 0; d-- {
				t.segs = append(t.segs, []string{"x", "y", "z", "w", "X", "Y", "50%", "%zz"}[tp.Weighted([]int{3, 3, 3, 3, 3, 3, 1, 1})])
			}
		}
		// a doubled slash: an empty segment is a segment, not nothing (never the last one:
		// a trailing slash is another matter)
		if len(t.segs) > 0 && tp.Chance(1, 8) {
			k := tp.Choose(len(t.segs))
			t.segs = append(t.segs[:k], append([]string{""}, t.segs[k:]...)...)
		}
		// the host is part of the URL pattern, label by label: one label more, at either
		// end, or one label less is another host
		if tp.Chance(1, 6) {
			switch tp.Choose(4) {
			case 0:
				t.host += "." + []string{"x", "evil", "com"}[tp.Choose(3)]
			case 1:
				t.host = []string{"x", "a", "www"}[tp.Choose(3)] + "." + t.host
			case 2:
				t.host = t.host[strings.Index(t.host, ".")+1:]
			case 3:
				t.host = t.host[:strings.Index(t.host, ".")]
			}
		}
		txns = append(txns, t)
	}

	dir := runTmp(s)
	if err := writeTree(dir, files); err != nil {
		s.HarnessErr = err.Error()
		return
	}
	setEngineEnv(dir)
	names := make([]string, len(flows))
	for i, f := range flows {
		names[i] = f.name
	}
	var curOrder []string
	s.OrderOn = func(point string, have []string) []string {
		if point != "flow.build" {
			return nil
		}
		// harness order first, anything else (system flows) sorted after
		out := append([]string(nil), curOrder...)
		in := map[string]bool{}
		for _, n := range out {
			in[n] = true
		}
		sort.Strings(have)
		for _, n := range have {
			if !in[n] {
				out = append(out, n)
			}
		}
		return out
	}
	// executed flows per (txn, direction) from the executor's own events
	executed := map[string]map[string]bool{}
	s.OnEvent = func(kind string, a []string) {
		if kind == "proc.executed" && len(a) == 5 {
			k := a[0]
			if executed[k] == nil {
				executed[k] = map[string]bool{}
			}
			executed[k][a[1]] = true
		}
	}
	shared := newShared()
	var firstApplied []string // applied-flow set per transaction/direction under the first order
	for oi := 0; oi < nOrders && !s.Failed(); oi++ {
		perm := tp.Perm(len(names))
		curOrder = curOrder[:0]
		for _, p := range perm {
			curOrder = append(curOrder, names[p])
		}
		kind := "load"
		if oi > 0 {
			kind = "reload"
		}
		s.Event(kind, strings.Join(curOrder, ","))
		s.FaultFired("load_order_permutation")
		st, err := streams.NewStream()
		if err == nil {
			err = st.Initialize()
		}
		if err != nil {
			if oi == 0 {
				s.Probe("config_rejected_by_loader") // rejected configurations are fine by definition
				s.Event("rejected", err.Error())
				return
			}
			s.Violate("R3", "load-depends-on-order", "the same files loaded under an earlier order but fail under order %v: %v", curOrder, err)
			return
		}
		var applied []string
		for ti, t := range txns {
			for _, request := range []bool{true, false} {
				id := fmt.Sprintf("o%d-t%d-%v", oi, ti, request)
				var acts int
				var xerr error
				if request {
					h := map[string]string{}
					if t.header != "" {
						h["x-h"] = t.header
					}
					m := reqMsg(id, t.method, t.host, t.path(), h)
					m.Query = t.query
					api := streamtypes.NewRequestAPIStream(m, shared)
					fa := &streamconfig.StreamActions{Request: &streamconfig.RequestStream{}}
					xerr = st.ExecuteFlow(api, fa)
					acts = len(fa.Request.Actions)
				} else {
					m := lunarMessages.OnResponse{ID: id, SequenceID: id, Method: t.method, URL: t.host + t.path(), Status: t.status,
						Headers: map[string]string{}, RawBody: []byte{}}
					api := streamtypes.NewResponseAPIStream(m, shared)
					fa := &streamconfig.StreamActions{Response: &streamconfig.ResponseStream{}}
					xerr = st.ExecuteFlow(api, fa)
					acts = len(fa.Response.Actions)
				}
				if xerr != nil {
					s.Violate("R1", "execute-error", "ExecuteFlow error for %+v: %v", t, xerr)
					return
				}
				var ran []string
				for _, f := range flows {
					if executed[id][f.name] {
						ran = append(ran, f.name)
					}
				}
				applied = append(applied, strings.Join(ran, "+"))
				dirName := map[bool]string{true: "request", false: "response"}[request]
				anyAccept := false
				for _, f := range flows {
					ok, und, reason := f.accepts(t, request)
					if ok {
						anyAccept = true
					}
					did := executed[id][f.name]
					switch {
					case did && !ok:
						s.Rule("R1")
						s.Violate("R1", "applied-although-filter-rejects:"+reason,
							"flow %s (%s m=%v h=%q q=%q st=%v) was applied to the %s of %s %s%s (x-h=%q q=%q status=%d) although its %s does not accept it; load order %v",
							f.name, f.url(), f.methods, f.header, f.query, f.status, dirName, t.method, t.host, t.path(), t.header, t.query, t.status, reason, curOrder)
					case !did && ok && !und:
						s.Rule("R2")
						if !shadowed(f, flows, t) {
							s.Violate("R2", "not-applied-although-filter-accepts",
								"flow %s (%s m=%v h=%q q=%q st=%v) was NOT applied to the %s of %s %s%s (x-h=%q q=%q status=%d) although its filter accepts it and no more specific literal pattern shadows it; configured: %v; load order %v",
								f.name, f.url(), f.methods, f.header, f.query, f.status, dirName, t.method, t.host, t.path(), t.header, t.query, t.status, desc, curOrder)
						} else {
							s.Probe("shadow_exemption_used")
						}
					case did:
						s.Rule("R1")
						s.Nontrivial()
					}
				}
				if !anyAccept {
					s.Rule("R4")
					if len(ran) > 0 || acts > 0 {
						s.Violate("R4", "action-for-unmatched-transaction", "%s %s%s matches no filter but flows %v ran / %d actions were returned", t.method, t.host, t.path(), ran, acts)
					}
				}
			}
		}
		if oi == 0 {
			firstApplied = applied
		} else {
			s.Rule("R3")
			for i := range applied {
				if applied[i] != firstApplied[i] {
					t := txns[i/2]
					s.Violate("R3", "selection-depends-on-load-order",
						"%s %s%s (x-h=%q q=%q status=%d, %s side): flows applied under the first load order: [%s], under order %v: [%s]; configured: %v",
						t.method, t.host, t.path(), t.header, t.query, t.status, map[int]string{0: "request", 1: "response"}[i%2], firstApplied[i], curOrder, applied[i], desc)
					break
				}
			}
		}
		s.State(strings.Join(applied, "|"))
	}
}
