package scen

import (
	"fmt"
	"time"

	"lunar/engine/utils/limit/concurrency"
	"lunar/toolkit-core/clock"

	"verifsim/kernel"
)

// C18L - the concurrency limiter and its vacuum with simulated blocking. Tasks
// take and release slots (TryTakeSlot registers the slot with the vacuum while it
// holds the slots mutex) while the vacuum goroutine, adopted as a task, runs its
// passes; every goroutine takes its locks through the simulator (Sim.SimLocks),
// so tasks are parked inside critical sections and lock-order inversions between
// the slots mutex and the vacuum's entries mutex become deadlocks. One at a time
// every operation returns; the same must hold for every interleaving.
// DESIGN.md section 4, C18.

func init() { register(&Scenario{ID: "C18L", Run: runC18L}) }

func runC18L(s *kernel.Sim) {
	tp := s.Tape
	limit := tp.Range(1, 3)
	ttl := time.Duration(tp.Range(1, 2)) * time.Second
	tick := time.Duration(tp.Range(1, 2)) * time.Second
	nOps := tp.Range(4, 16)
	s.Knobs["limit"], s.Knobs["ttl"], s.Knobs["tick"], s.Knobs["ops"] = limit, ttl.String(), tick.String(), nOps
	s.LogEngineEvents = false
	lim := concurrency.NewLimiter(limit, ttl, tick, clock.NewRealClock())
	s.SimLocks = true
	settling := false
	s.YieldOn = func(point string, a []string, harness bool) bool {
		return !settling && isLockPoint(point)
	}
	type op struct {
		name string
		task *kernel.Task
		done bool
	}
	var ops []*op
	n := 0
	for step := 0; step < 400 && !s.Failed(); step++ {
		parked := s.ParkedTasks()
		w := []int{0, 0, 1}
		if len(ops) < nOps {
			w[0] = 2
		}
		if len(parked) > 0 {
			w[1] = 5
		}
		if len(ops) >= nOps && len(parked) == 0 {
			break
		}
		switch tp.Weighted(w) {
		case 0:
			n++
			id := fmt.Sprintf("t%d", 1+tp.Choose(4))
			o := &op{name: fmt.Sprintf("op%d", n)}
			ops = append(ops, o)
			take := tp.Chance(2, 3)
			s.Event("op", o.name, id, fmt.Sprint(take))
			o.task = s.Spawn(o.name, func() {
				if take {
					lim.TryTakeSlot(id)
				} else {
					lim.ReleaseSlot(id)
				}
				o.done = true
			})
		case 1:
			s.Resume(parked[tp.Choose(len(parked))])
		case 2:
			s.Sleep([]time.Duration{time.Millisecond, tick, tick / 2, ttl}[tp.Choose(4)])
		}
		s.State(fmt.Sprintf("p%d", len(s.ParkedTasks())))
	}
	if s.Failed() {
		return
	}
	settling = true
	for round := 0; round < 4; round++ {
		s.SettleLocks()
		s.Sleep(ttl + tick)
	}
	s.Rule("R4")
	s.Nontrivial()
	s.FaultFired("tasks_parked_inside_critical_sections")
	if dead, desc := s.Deadlocked(ttl + tick); dead {
		s.Violate("R4", "deadlock", "every live task waits for a lock and none of them can be released: %s", desc)
		return
	}
	s.SettleLocks()
	for _, o := range ops {
		if !o.done {
			s.Violate("R4", "operation-never-returned", "%s has not returned %v after the last fault", o.name, 4*(ttl+tick))
			break
		}
	}
}
