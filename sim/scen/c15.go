package scen

import (
	"encoding/json"
	"errors"
	"fmt"
	"io"
	"math"
	"net/http"
	"os"
	"path/filepath"
	"sort"
	"strings"
	"time"

	"lunar/aggregation-plugin/common"
	"lunar/aggregation-plugin/discovery"
	sharedDiscovery "lunar/shared-model/discovery"

	"verifsim/kernel"
)

// C15 — discovery statistics are independent of batching and lose no traffic.
// Real discovery.Run / State / BuildTree with a small convergence threshold.
// The "schedule" is the batch split; the "crash" is a restart between batches
// after which only the state file survives (new State from the file, new URL
// tree from the known endpoints only). DESIGN.md section 4, C15.

func init() { register(&Scenario{ID: "C15", Batch: true, Run: runC15}) }

// c15Admin stands in for the engine's admin endpoint, which the plugin tells about
// failed transactions before it aggregates a batch (the child runs with
// ENGINE_ADMIN_PORT set, as the product image does). It is the process's default HTTP
// transport: no socket is opened. mode 0 = reachable, 1 = nothing listens, 2 = every
// other call fails, 3 = answers 500.
type c15Admin struct {
	mode  int
	calls int
	fails int
}

func (a *c15Admin) RoundTrip(r *http.Request) (*http.Response, error) {
	a.calls++
	if r.Body != nil {
		io.Copy(io.Discard, r.Body)
		r.Body.Close()
	}
	if a.mode == 1 || (a.mode == 2 && a.calls%2 == 1) {
		a.fails++
		return nil, errors.New("dial tcp " + r.URL.Host + ": connect: connection refused")
	}
	code := 200
	if a.mode == 3 {
		code = 500
	}
	return &http.Response{StatusCode: code, Status: fmt.Sprint(code), Proto: "HTTP/1.1", ProtoMajor: 1, ProtoMinor: 1,
		Header: http.Header{}, Body: io.NopCloser(strings.NewReader("")), Request: r}, nil
}

// c15Known: the endpoints declared in the policies file (set per run); the URL
// tree of every delivery and of every restart is built from them.
var c15Known sharedDiscovery.KnownEndpoints

func c15Load(path string) (*discovery.Agg, error) {
	b, err := os.ReadFile(path)
	if err != nil {
		return nil, err
	}
	out := sharedDiscovery.Output{}
	if err := json.Unmarshal(b, &out); err != nil {
		return nil, err
	}
	return discovery.ConvertFromPersisted(out), nil
}

type c15delivery struct {
	cuts     []int // batch boundaries (indices into the stream, increasing)
	restarts map[int]bool
	// failWrite: the state file cannot be written while this batch is flushed
	// (disk error); the records of such a batch may or may not be kept
	failWrite map[int]bool
}

// deliver feeds the records in the given batches to a fresh state (and tree),
// restarting where asked; it returns the final aggregation read back from disk
// and the final tree.
func c15deliver(dir, tag string, recs []common.AccessLog, d c15delivery, threshold int) (*discovery.Agg, common.SimpleURLTreeI, error) {
	a, t, _, err := c15deliverF(dir, tag, recs, d, threshold)
	return a, t, err
}

// c15deliverF also reports the batches whose flush met the injected write failure.
func c15deliverF(dir, tag string, recs []common.AccessLog, d c15delivery, threshold int) (*discovery.Agg, common.SimpleURLTreeI, []int, error) {
	path := filepath.Join(dir, "discovery-"+tag+".json")
	os.Remove(path)
	newTree := func() (common.SimpleURLTreeI, error) {
		return common.BuildTree(c15Known, threshold)
	}
	state := &discovery.State{DiscoverFilepath: path}
	if err := state.InitializeState(); err != nil {
		return nil, nil, nil, err
	}
	tree, err := newTree()
	if err != nil {
		return nil, nil, nil, err
	}
	prev := 0
	var failed []int
	bounds := append(append([]int{}, d.cuts...), len(recs))
	for bi, end := range bounds {
		if d.restarts[bi] {
			// only the state file survives
			state = &discovery.State{DiscoverFilepath: path}
			if err := state.InitializeState(); err != nil {
				return nil, nil, nil, err
			}
			if tree, err = newTree(); err != nil {
				return nil, nil, nil, err
			}
		}
		if d.failWrite[bi] {
			// the path is a directory for the time of this flush: the write fails
			held := path + ".held"
			had := os.Rename(path, held) == nil
			if err := os.Mkdir(path, 0o755); err != nil {
				return nil, nil, nil, err
			}
			runErr := discovery.Run(state, recs[prev:end], tree)
			os.Remove(path)
			if had {
				if err := os.Rename(held, path); err != nil {
					return nil, nil, nil, err
				}
			}
			if runErr != nil {
				failed = append(failed, bi)
			}
			prev = end
			continue
		}
		if err := discovery.Run(state, recs[prev:end], tree); err != nil {
			return nil, nil, nil, err
		}
		prev = end
	}
	agg, err := c15Load(path)
	return agg, tree, failed, err
}

// c15compare compares a delivery's final aggregation with a reference; "" = same.
func c15compare(got, one *discovery.Agg) (string, string) {
	if len(got.Endpoints) != len(one.Endpoints) {
		return "endpoint-set-depends-on-batching", fmt.Sprintf("endpoints %v, one batch gives %v", c15keys(got), c15keys(one))
	}
	keys := make([]sharedDiscovery.Endpoint, 0, len(one.Endpoints))
	for k := range one.Endpoints {
		keys = append(keys, k)
	}
	sort.Slice(keys, func(i, j int) bool { return fmt.Sprint(keys[i]) < fmt.Sprint(keys[j]) })
	for _, k := range keys {
		a := one.Endpoints[k]
		b, ok := got.Endpoints[k]
		if !ok {
			return "endpoint-set-depends-on-batching", fmt.Sprintf("endpoint %v missing; got %v", k, c15keys(got))
		}
		if a.Count != b.Count || a.MinTime != b.MinTime || a.MaxTime != b.MaxTime || fmt.Sprint(sortedStatus(a.StatusCodes)) != fmt.Sprint(sortedStatus(b.StatusCodes)) {
			return "statistics-depend-on-batching", fmt.Sprintf("endpoint %v count/min/max/status = %d/%d/%d/%v, one batch gives %d/%d/%d/%v",
				k, b.Count, b.MinTime, b.MaxTime, sortedStatus(b.StatusCodes), a.Count, a.MinTime, a.MaxTime, sortedStatus(a.StatusCodes))
		}
		if !relClose(a.AverageDuration, b.AverageDuration) || !relClose(a.AverageTotalDuration, b.AverageTotalDuration) {
			return "averages-depend-on-batching", fmt.Sprintf("endpoint %v averages %v/%v, one batch gives %v/%v", k, b.AverageDuration, b.AverageTotalDuration, a.AverageDuration, a.AverageTotalDuration)
		}
	}
	return "", ""
}

func relClose(a, b float32) bool {
	d := math.Abs(float64(a) - float64(b))
	m := math.Max(math.Abs(float64(a)), math.Abs(float64(b)))
	return d <= 1e-3*m+1e-3
}

func runC15(s *kernel.Sim) {
	tp := s.Tape
	// the process's time zone is part of the environment the state file is written
	// and read back in: half of the runs are not in UTC
	if tp.Chance(1, 2) {
		old := time.Local
		time.Local = time.FixedZone("verif", []int{3, -8, 5}[tp.Choose(3)]*3600+[]int{0, 1800}[tp.Choose(2)])
		defer func() { time.Local = old }()
		s.Knobs["time_zone"] = time.Local.String()
	}
	// a third of the runs declare endpoints in the policies: a wildcard above the
	// traffic, a path parameter where the traffic varies, or a few constants
	c15Known = sharedDiscovery.KnownEndpoints{}
	if tp.Chance(1, 3) {
		menu := [][]sharedDiscovery.Endpoint{
			{{Method: "GET", URL: "api.com/*"}},
			{{Method: "GET", URL: "api.com/user/*"}},
			{{Method: "GET", URL: "api.com/user/{id}/posts"}},
			{{Method: "GET", URL: "api.com/item/1"}, {Method: "GET", URL: "api.com/item/2"}},
			{{Method: "POST", URL: "api.com/*"}, {Method: "GET", URL: "api.com/item/{id}"}},
		}
		c15Known.Endpoints = menu[tp.Choose(len(menu))]
		s.Knobs["known_endpoints"] = fmt.Sprint(c15Known.Endpoints)
	}
	defer func() { c15Known = sharedDiscovery.KnownEndpoints{} }()
	// the engine's admin endpoint: reachable in half of the runs
	admin := &c15Admin{mode: []int{0, 0, 0, 1, 2, 3}[tp.Choose(6)]}
	s.Knobs["engine_admin_endpoint"] = []string{"reachable", "unreachable", "unreachable every other time", "answers 500"}[admin.mode]
	oldTransport := http.DefaultTransport
	http.DefaultTransport = admin
	defer func() {
		http.DefaultTransport = oldTransport
		if admin.fails > 0 {
			s.FaultFired("engine_admin_unreachable")
		}
		if admin.calls > 0 {
			s.Probe("failed_transactions_reported_to_the_engine")
		}
	}()
	threshold := tp.Range(2, 5)
	n := tp.Range(5, 120)
	nIDs := threshold + tp.Range(0, 4)
	methods := []string{"GET", "POST", "GET", "get"}          // a method is attributed as it was logged; another spelling is another endpoint
	statuses := []int{200, 200, 404, 500, 200, 499, 520, 599} // among them codes that have no registered name
	consumers := []string{"", "c1", "c2"}
	interceptors := []string{"lunar-py-interceptor/1.0.0", "lunar-java-interceptor/2.1", "", "garbage"}
	// two-level URLs (a second path parameter below the first): rare, or as
	// common as the rest and spread over all users
	deepW, deepUsers := 1, 2
	if tp.Chance(1, 2) {
		deepW, deepUsers = 4, nIDs
	}
	zeroDur := tp.Chance(1, 2) // a third of the records of half of the runs took 0 ms
	s.Knobs["zero_durations"] = zeroDur
	var recs []common.AccessLog
	nonInternal := 0
	for i := 0; i < n; i++ {
		var url string
		switch tp.Weighted([]int{5, 2, 2, deepW}) {
		case 0:
			url = fmt.Sprintf("api.com/user/%d/posts", 100+tp.Choose(nIDs))
		case 1:
			url = fmt.Sprintf("api.com/item/%d", 1+tp.Choose(nIDs))
		case 2:
			url = []string{"api.com/static/a", "api.com/static/b", "other.io/v1/ping"}[tp.Choose(3)]
		case 3:
			url = fmt.Sprintf("api.com/user/%d/posts/%d/comments", 100+tp.Choose(deepUsers), tp.Choose(nIDs))
		}
		dur := 1 + tp.Choose(1000)
		tot := dur + tp.Choose(50)
		if zeroDur && tp.Chance(1, 3) { // HAProxy reports whole milliseconds: 0 is a legal duration
			dur, tot = 0, 0
		}
		r := common.AccessLog{
			Timestamp: int64(1_700_000_000+tp.Choose(100000)) * 1000, Duration: dur, TotalDuration: tot,
			StatusCode: statuses[tp.Choose(len(statuses))], Method: methods[tp.Choose(len(methods))], Host: "api.com", URL: url,
			Interceptor: interceptors[tp.Choose(len(interceptors))], ConsumerTag: consumers[tp.Choose(3)],
			Internal: tp.Chance(1, 10), RequestID: fmt.Sprintf("r%d", i),
		}
		if !r.Internal {
			nonInternal++
		}
		recs = append(recs, r)
	}
	nSplits := tp.Range(2, 4)
	s.Knobs["records"], s.Knobs["threshold"], s.Knobs["ids"], s.Knobs["splits"] = n, threshold, nIDs, nSplits
	s.MixSig(fmt.Sprint(threshold, recs))
	if os.Getenv("VERIF_C15_DUMP") != "" { // debugging aid: the generated record stream
		b, _ := json.Marshal(recs)
		fmt.Fprintf(os.Stderr, "C15 records (threshold %d): %s\n", threshold, b)
	}
	dir := runTmp(s)

	// (a) one batch
	one, treeOne, err := c15deliver(dir, "one", recs, c15delivery{}, threshold)
	if err != nil {
		s.Violate("R1", "run-error", "discovery.Run failed on the single batch: %v", err)
		return
	}
	if nonInternal > threshold {
		s.Nontrivial()
	}
	// ---- R1: conservation on the one-batch result ----
	conserve := func(tag string, a *discovery.Agg) {
		s.Rule("R1")
		total := 0
		for ep, e := range a.Endpoints {
			total += int(e.Count)
			sum := 0
			for _, c := range e.StatusCodes {
				sum += int(c)
			}
			if sum != int(e.Count) {
				s.Violate("R1", "count-differs-from-status-sum", "%s: endpoint %v count %d but its status-code counts sum to %d", tag, ep, e.Count, sum)
			}
		}
		if total != nonInternal {
			s.Violate("R1", "records-lost-or-duplicated", "%s: endpoint counts sum to %d, the stream has %d non-internal records", tag, total, nonInternal)
		}
		ctotal := 0
		for _, m := range a.Consumers {
			for _, e := range m {
				ctotal += int(e.Count)
			}
		}
		if ctotal != nonInternal {
			s.Violate("R1", "consumer-records-lost-or-duplicated", "%s: per-consumer counts sum to %d, the stream has %d non-internal records", tag, ctotal, nonInternal)
		}
	}
	conserve("one batch", one)
	// ---- R3: against a reference aggregator keyed by the final tree's normalisation ----
	type ref struct {
		count, sumDur, sumTot int
		min, max              int64
		status                map[int]int
	}
	refs := map[sharedDiscovery.Endpoint]*ref{}
	for _, r := range recs {
		if r.Internal {
			continue
		}
		nu, ok := common.StrictNormalizeURL(treeOne, r.URL)
		if !ok {
			nu = r.URL
		}
		k := sharedDiscovery.Endpoint{Method: r.Method, URL: nu}
		x := refs[k]
		if x == nil {
			x = &ref{min: r.Timestamp, max: r.Timestamp, status: map[int]int{}}
			refs[k] = x
		}
		x.count++
		x.sumDur += r.Duration
		x.sumTot += r.TotalDuration
		x.status[r.StatusCode]++
		if r.Timestamp < x.min {
			x.min = r.Timestamp
		}
		if r.Timestamp > x.max {
			x.max = r.Timestamp
		}
	}
	s.Rule("R3")
	for k, x := range refs {
		e, ok := one.Endpoints[k]
		if !ok {
			s.Violate("R3", "endpoint-missing", "one batch: endpoint %v (%d records) is missing from the statistics; present: %v", k, x.count, c15keys(one))
			continue
		}
		if int(e.Count) != x.count || e.MinTime != x.min || e.MaxTime != x.max {
			s.Violate("R3", "count-or-minmax-wrong", "one batch: endpoint %v has count=%d min=%d max=%d, the records give count=%d min=%d max=%d", k, e.Count, e.MinTime, e.MaxTime, x.count, x.min, x.max)
		}
		if !relClose(e.AverageDuration, float32(x.sumDur)/float32(x.count)) || !relClose(e.AverageTotalDuration, float32(x.sumTot)/float32(x.count)) {
			s.Violate("R3", "average-wrong", "one batch: endpoint %v averages %v/%v, true means %v/%v", k, e.AverageDuration, e.AverageTotalDuration, float32(x.sumDur)/float32(x.count), float32(x.sumTot)/float32(x.count))
		}
	}
	if len(one.Endpoints) != len(refs) {
		s.Violate("R3", "extra-endpoints", "one batch: %d endpoints in the statistics, the records normalise to %d: %v", len(one.Endpoints), len(refs), c15keys(one))
	}
	// ---- R2 / R4: other deliveries ----
	for si := 0; si < nSplits && !s.Failed(); si++ {
		d := c15delivery{restarts: map[int]bool{}}
		k := tp.Range(1, 6)
		cutSet := map[int]bool{}
		for i := 0; i < k; i++ {
			cutSet[tp.Choose(n+1)] = true
		}
		for c := range cutSet {
			d.cuts = append(d.cuts, c)
		}
		sort.Ints(d.cuts)
		if tp.Chance(1, 4) && len(d.cuts) > 0 { // an empty batch
			d.cuts = append(d.cuts, d.cuts[len(d.cuts)-1])
			sort.Ints(d.cuts)
		}
		withRestart := tp.Chance(1, 2)
		if withRestart {
			for bi := 1; bi <= len(d.cuts); bi++ {
				if tp.Chance(1, 2) {
					d.restarts[bi] = true
				}
			}
			if len(d.restarts) == 0 {
				withRestart = false
			}
		}
		// a disk error during one or two flushes (a third of the deliveries)
		if tp.Chance(1, 3) {
			d.failWrite = map[int]bool{}
			for k := tp.Range(1, 2); k > 0; k-- {
				d.failWrite[tp.Choose(len(d.cuts)+1)] = true
			}
		}
		s.Event("delivery", fmt.Sprintf("cuts=%v restarts=%v failed-writes=%v", d.cuts, d.restarts, d.failWrite))
		s.MixSig(fmt.Sprint(d.cuts, d.restarts, d.failWrite))
		got, _, failed, err := c15deliverF(dir, fmt.Sprintf("split%d", si), recs, d, threshold)
		if err != nil {
			s.Violate("R2", "run-error", "discovery.Run failed for cuts %v restarts %v: %v", d.cuts, d.restarts, err)
			return
		}
		s.FaultFired("batch_split")
		what := fmt.Sprintf("cuts %v restarts %v", d.cuts, d.restarts)
		pm := func(a *discovery.Agg) map[string]int {
			m := map[string]int{}
			for ep, e := range a.Endpoints {
				m[ep.Method] += int(e.Count)
			}
			return m
		}
		// the references: one batch of all records; after failed flushes also one
		// batch of the records without any subset of the batches that failed (a failed
		// flush may lose its batch, it may not damage anything else)
		refs := []*discovery.Agg{one}
		if len(failed) > 0 {
			s.FaultFired("state_file_write_failure")
			what += fmt.Sprintf(" failed writes at batches %v", failed)
			bounds := append(append([]int{}, d.cuts...), len(recs))
			for mask := 1; mask < 1<<len(failed); mask++ {
				var sub []common.AccessLog
				prev := 0
				for bi, end := range bounds {
					drop := false
					for fi, fb := range failed {
						drop = drop || (fb == bi && mask&(1<<fi) != 0)
					}
					if !drop {
						sub = append(sub, recs[prev:end]...)
					}
					prev = end
				}
				ref, _, rerr := c15deliver(dir, "ref", sub, c15delivery{}, threshold)
				if rerr != nil {
					s.HarnessErr = "reference delivery failed: " + rerr.Error()
					return
				}
				refs = append(refs, ref)
			}
		} else {
			conserve(what, got)
		}
		if withRestart {
			s.FaultFired("restart_with_only_state_file")
			s.Rule("R4")
			// per-method totals are preserved across restarts (keys may differ: the tree was rebuilt)
			ok := false
			for _, ref := range refs {
				ok = ok || fmt.Sprint(pm(got)) == fmt.Sprint(pm(ref))
			}
			if !ok {
				s.Violate("R4", "totals-not-preserved-across-restart", "%s: per-method totals %v, one batch gives %v", what, pm(got), pm(one))
			}
			continue
		}
		s.Rule("R2")
		var firstSig, firstDetail string
		match := false
		for _, ref := range refs {
			sig, detail := c15compare(got, ref)
			if sig == "" {
				match = true
				break
			}
			if firstSig == "" {
				firstSig, firstDetail = sig, detail
			}
		}
		if !match {
			s.Violate("R2", firstSig, "%s: %s", what, firstDetail)
		}
	}
	s.State(fmt.Sprintf("e%d", len(one.Endpoints)))
}

func c15keys(a *discovery.Agg) []string {
	var k []string
	for ep, e := range a.Endpoints {
		k = append(k, fmt.Sprintf("%s %s=%d", ep.Method, ep.URL, e.Count))
	}
	sort.Strings(k)
	return k
}

func sortedStatus(m map[int]sharedDiscovery.Count) []string {
	var k []string
	for c, n := range m {
		k = append(k, fmt.Sprintf("%d:%d", c, n))
	}
	sort.Strings(k)
	return k
}
