package scen

import (
	"fmt"
	"os"
	"path/filepath"
	"regexp"
	"time"

	"lunar/engine/config"
	"lunar/engine/routing"
	"lunar/engine/services"
	sharedConfig "lunar/shared-model/config"

	"github.com/negasus/haproxy-spoe-go/message"
	"github.com/negasus/haproxy-spoe-go/payload/kv"

	"verifsim/kernel"
)

// C11H - the version pin through the real SPOE entry points of policy mode
// (routing.processRequest / processResponse with SPOE messages, real accessor,
// dispatcher and retry plugin). The policy version is made visible on the
// response side by one bit: even versions enable a retry remedy, odd versions
// disable it, so whether a 5xx response is handed an x-lunar-retry-after tells
// which kind of version it was processed with (the cool-down value itself is
// carried in the sequence's retry state and says nothing about the version). Transactions are fresh calls (id == sequence id)
// or retried attempts of an earlier sequence (new id, old sequence id) - each is
// a transaction of its own. Sequential history. DESIGN.md section 4, C11.

func init() { register(&Scenario{ID: "C11H", Run: runC11H}) }

func c11hPolicies(m int) string {
	return fmt.Sprintf(`global:
  remedies:
    - name: retry-v%d
      enabled: %v
      config:
        retry:
          attempts: 50
          initial_cooldown_seconds: 1
          cooldown_multiplier: 1
          conditions:
            status_code:
              - from: 500
                to: 599
  diagnosis: []
endpoints: []
`, m, m%2 == 0)
}

var c11hRetryAfter = regexp.MustCompile(`x-lunar-retry-after:\s*([0-9.]+)`)

func runC11H(s *kernel.Sim) {
	tp := s.Tape
	// lock attempts that do not wait (TryLock / TryRLock) may fail as if another
	// goroutine - a pinning transaction, a reload, a vacuum pass - held the lock
	s.FaultOn = func(point string, _ []string) error {
		if point == "trylock" && tp.Chance(1, 3) {
			s.FaultFired("non_waiting_lock_attempt_met_a_held_lock")
			return fmt.Errorf("contended")
		}
		return nil
	}
	nOps := tp.Range(6, 40)
	s.Knobs["ops"] = nOps
	s.LogEngineEvents = false
	dir := runTmp(s)
	polPath := filepath.Join(dir, "policies.yaml")
	os.Setenv("LUNAR_PROXY_POLICIES_CONFIG", polPath)
	os.Setenv("LUNAR_PROXY_CONFIG_DIR", dir)
	installHAProxy()
	marker := 0
	if err := os.WriteFile(polPath, []byte(c11hPolicies(0)), 0o644); err != nil {
		s.HarnessErr = err.Error()
		return
	}
	res, err := config.BuildInitialFromFile()
	if err != nil {
		s.HarnessErr = "BuildInitialFromFile: " + err.Error()
		return
	}
	svc, err := services.Initialize(c17nullWriter{}, 10*time.Second, sharedConfig.Exporters{})
	if err != nil {
		s.HarnessErr = "services.Initialize: " + err.Error()
		return
	}
	mgr := routing.NewVerifPoliciesManager(res, svc)

	reqMsgOf := func(id, seq string) *message.Message {
		k := kv.NewKV()
		k.Add("id", id)
		k.Add("sequence_id", seq)
		k.Add("method", "GET")
		k.Add("scheme", "https")
		k.Add("url", "a.com/r")
		k.Add("path", "/r")
		k.Add("query", "")
		k.Add("headers", "")
		k.Add("body", []byte(""))
		return &message.Message{Name: "lunar-on-request", KV: k}
	}
	respMsgOf := func(id, seq string, status int64) *message.Message {
		k := kv.NewKV()
		k.Add("id", id)
		k.Add("sequence_id", seq)
		k.Add("method", "GET")
		k.Add("url", "a.com/r")
		k.Add("status", status)
		k.Add("headers", "")
		k.Add("body", []byte(""))
		return &message.Message{Name: "lunar-on-response", KV: k}
	}
	type txn struct {
		id, seq string
		reqT    time.Duration
		pinned  int // version current when its request was processed
		// same-id retries: responses seen so far / further attempts to come
		answered bool
		attempts int
	}
	sameID := tp.Chance(1, 3)
	s.Knobs["answered_transaction_ids_return"] = sameID
	var open []*txn
	var seqs []string // sequence ids that have had at least one attempt
	n := 0
	for i := 0; i < nOps && !s.Failed(); i++ {
		s.Sleep(time.Duration(1+tp.Choose(4000)) * time.Millisecond)
		switch c := tp.Weighted([]int{4, 4, 2}); {
		case c == 0 || (c == 1 && len(open) == 0):
			n++
			t := &txn{id: fmt.Sprintf("t%d", n), reqT: s.Now(), pinned: marker}
			t.seq = t.id
			if len(seqs) > 0 && tp.Chance(1, 2) {
				t.seq = seqs[tp.Choose(len(seqs))] // a retried attempt of an earlier call
				s.FaultFired("retried_attempt_across_reload")
			} else {
				seqs = append(seqs, t.id)
			}
			if _, err := routing.VerifProcessRequest(reqMsgOf(t.id, t.seq), mgr); err != nil {
				s.Violate("R1", "process-error", "processRequest(%s): %v", t.id, err)
				return
			}
			s.Event("request", t.id, t.seq, fmt.Sprint(marker))
			open = append(open, t)
		case c == 1:
			k := tp.Choose(len(open))
			t := open[k]
			// the transaction id comes from the client and a retried call may keep it: in a
			// third of the runs an answered transaction may come back under its id - the
			// request of its next attempt, then that attempt's response. It is the same
			// transaction: the version of its first request stands.
			if sameID && tp.Chance(1, 2) {
				t.attempts++
				s.FaultFired("transaction_id_returns_after_its_response")
			} else {
				open = append(open[:k], open[k+1:]...)
			}
			if t.answered {
				if _, err := routing.VerifProcessRequest(reqMsgOf(t.id, t.seq), mgr); err != nil {
					s.Violate("R1", "process-error", "processRequest(%s): %v", t.id, err)
					return
				}
				s.Event("request", t.id, t.seq, "again")
			}
			t.answered = true
			acts, err := routing.VerifProcessResponse(respMsgOf(t.id, t.seq, 500), mgr)
			if err != nil {
				s.Violate("R1", "process-error", "processResponse(%s): %v", t.id, err)
				return
			}
			text := ""
			for _, a := range acts {
				if b, ok := a.Value.([]byte); ok {
					text += string(b) + "\n"
				} else {
					text += fmt.Sprint(a.Value) + "\n"
				}
			}
			acted := c11hRetryAfter.MatchString(text)
			s.Event("response", t.id, t.seq, fmt.Sprintf("retry_acted=%v pinned=%d", acted, t.pinned))
			if s.Now()-t.reqT > c11Retention {
				continue // beyond the retention period the pin may be gone
			}
			s.Rule("R1")
			s.Nontrivial()
			enabled := t.pinned%2 == 0
			switch {
			case acted && !enabled:
				s.Violate("R1", "version-changed-mid-transaction", "transaction %s (sequence %s): its request was processed when version %d was current (retry remedy disabled), its response %v later was handed a retry: it was processed with another version",
					t.id, t.seq, t.pinned, s.Now()-t.reqT)
			case !acted && enabled && t.id == t.seq:
				// (a retried attempt may legitimately get no retry: the sequence's state may be gone)
				s.Violate("R1", "version-changed-mid-transaction", "transaction %s (a fresh call): its request was processed when version %d was current (retry remedy enabled), its 500 response %v later was not handed a retry: it was processed with another version",
					t.id, t.pinned, s.Now()-t.reqT)
			}
		default:
			marker++
			if err := os.WriteFile(polPath, []byte(c11hPolicies(marker)), 0o644); err != nil {
				s.HarnessErr = err.Error()
				return
			}
			if err := res.Accessor.ReloadFromFile(); err != nil {
				s.HarnessErr = "ReloadFromFile: " + err.Error()
				return
			}
			s.FaultFired("policy_reload")
			s.Event("apply", fmt.Sprint(marker))
		}
	}
}
