package scen

import (
	"context"
	"fmt"
	"time"

	"lunar/engine/actions"
	"lunar/engine/config"
	lunarMessages "lunar/engine/messages"
	"lunar/engine/services/remedies"
	"lunar/engine/utils/limit"
	"lunar/engine/utils/obfuscation"
	sharedConfig "lunar/shared-model/config"
	"lunar/toolkit-core/clock"
	"lunar/toolkit-core/logging"

	"verifsim/kernel"
)

// C09 — policy-mode strategy-based throttling never exceeds the allowed count
// per epoch-aligned window, per remedy and group. Real plugin + real
// RateLimitState on the bubble's fake clock. DESIGN.md section 4, C09.

func init() { register(&Scenario{ID: "C09", Batch: true, Run: runC09}) }

type c09remedy struct {
	name     string
	allowed  int64
	winS     int
	status   int // 0 = default 429
	grouped  bool
	pct10    map[string]int // allocation percentage in tenths of a percent
	def      string         // allow | block | use_default_allocation | ""
	defPct10 int
	rem      config.ScopedRemedy
	cfg      *sharedConfig.StrategyBasedThrottlingConfig
}

func ceilDiv(a, b int64) int64 { return (a + b - 1) / b }

func runC09(s *kernel.Sim) {
	tp := s.Tape
	nRem := tp.Range(1, 3)
	wins := []int{1, 2, 3, 5, 10, 60, 7, 13, 1000}
	pcts := []int{1000, 500, 333, 250, 100, 0, 667, 15, 1500, 1250} // tenths of a percent; nothing caps a share at the whole allowance
	var rems []*c09remedy
	// a quarter of the runs use large allowances and arbitrary whole percentages, and
	// fill a group's share to the brim: the share is ceil(allowed * percentage / 100)
	// in exact arithmetic
	precise := tp.Chance(1, 4)
	s.Knobs["precise_shares"] = precise
	for i := 0; i < nRem; i++ {
		r := &c09remedy{name: fmt.Sprintf("rem%d", i), allowed: int64(tp.Range(1, 5)), winS: wins[tp.Choose(len(wins))]}
		if precise {
			r.allowed = int64([]int{10, 20, 60, 100, 150, 7, 33}[tp.Choose(7)])
		}
		if tp.Chance(1, 3) {
			r.status = []int{429, 503, 418}[tp.Choose(3)]
		}
		cfg := &sharedConfig.StrategyBasedThrottlingConfig{AllowedRequestCount: r.allowed, WindowSizeInSeconds: r.winS, ResponseStatusCode: r.status}
		if tp.Chance(1, 2) {
			r.grouped = true
			r.pct10 = map[string]int{}
			ga := &sharedConfig.GroupQuotaAllocation{GroupBy: &sharedConfig.GroupBy{HeaderName: "X-Grp"}}
			// group names that differ only by case are distinct groups (the allocation
			// table is matched byte for byte), so they must not share a counter either
			cfgPool := []string{"a", "b", "A", "Gold", "gold"}
			perm := tp.Perm(len(cfgPool))
			for _, gi := range perm[:2] {
				g := cfgPool[gi]
				p := pcts[tp.Choose(len(pcts))]
				r.pct10[g] = p
				ga.Groups = append(ga.Groups, sharedConfig.QuotaAllocation{GroupHeaderValue: g, AllocationPercentage: float64(p) / 10})
			}
			r.def = []string{"", "allow", "block", "use_default_allocation"}[tp.Choose(4)]
			r.defPct10 = pcts[tp.Choose(len(pcts))]
			if precise {
				r.defPct10 = 10 * tp.Range(1, 100)
			}
			ga.Default = r.def
			ga.DefaultAllocationPercentage = float64(r.defPct10) / 10
			cfg.GroupQuotaAllocation = ga
		}
		r.cfg = cfg
		r.rem = config.ScopedRemedy{Remedy: &sharedConfig.Remedy{Enabled: true, Name: r.name,
			Config: sharedConfig.RemedyConfig{StrategyBasedThrottling: cfg}}}
		rems = append(rems, r)
	}
	nOps := tp.Range(5, 40)
	// a policy reload may change the window size of a remedy between two requests
	changeP := 0
	if tp.Chance(1, 3) {
		changeP = tp.Range(1, 3)
	}
	burstP := tp.Choose(4)
	siteOn, density := lockSites(tp)
	var desc []string
	for _, r := range rems {
		desc = append(desc, fmt.Sprintf("%s:allowed=%d,win=%ds,status=%d,grouped=%v,pct=%v,def=%s/%d", r.name, r.allowed, r.winS, r.status, r.grouped, r.pct10, r.def, r.defPct10))
	}
	s.Knobs["remedies"], s.Knobs["ops"], s.Knobs["burst"], s.Knobs["lock_sites"] = desc, nOps, burstP, density
	shareChanges := !precise && tp.Chance(1, 3)
	s.Knobs["share_changes"] = shareChanges
	metricsReads := tp.Chance(1, 3)
	s.Knobs["metrics_reads"] = metricsReads
	s.Knobs["window_change_per_10_ops"] = changeP

	cl := clock.NewRealClock()
	// production wires the identity obfuscator (services.go); MD5 is what the unit tests use
	var hasher obfuscation.Hasher = obfuscation.IdentityHasher{}
	if tp.Chance(1, 4) {
		hasher = obfuscation.MD5Hasher{}
	}
	s.Knobs["hasher"] = fmt.Sprintf("%T", hasher)
	rateState := limit.NewRateLimitState(cl, logging.ContextLogger{})
	plugin, err := remedies.NewStrategyBasedThrottlingPlugin(context.Background(), cl, nil,
		rateState, obfuscation.Obfuscator{Hasher: hasher})
	if err != nil {
		s.HarnessErr = "cannot build throttling plugin: " + err.Error()
		return
	}
	inBurst := false
	s.YieldOn = func(point string, a []string, harness bool) bool {
		return harness && inBurst && isLockPoint(point) && siteOn(a[0])
	}

	// reference: passes per (remedy, group, grid window)
	counts := map[string]int64{}
	fuzzy := map[string]bool{} // windows in which the attribution of some passes is open (see bursts)
	// Window size changes: a counter learns of the new size at the first request of
	// its group after the change. From then on the new grid applies; what passed
	// before is not held against the new configuration (no implementation that
	// keeps a counter could know when it passed). In the grid window that contains
	// that instant only the bound is judged (an implementation may carry the old
	// count over), afterwards exactness too.
	lastW := map[string]int{}
	epoch := map[string]int{}
	changeWin := map[string]int64{}
	// model returns the count key of this request and whether exactness is judged
	model := func(r *c09remedy, grp string, k int64) (string, bool) {
		g := r.name + "|" + grp
		if w, seen := lastW[g]; seen && w != r.winS {
			epoch[g]++
			changeWin[g] = k
			s.FaultFired("window_size_changed_between_requests")
		} else if !seen {
			changeWin[g] = -1
		}
		lastW[g] = r.winS
		return fmt.Sprintf("%s|%d|%d", g, epoch[g], k), changeWin[g] != k
	}
	// Allowance or percentage changes (a policy reload that keeps the window size):
	// the counter of the running window stays, the new share applies. In a grid
	// window in which requests met different shares only the bound is judged, against
	// the largest of them.
	limSeen := map[string][2]int64{}
	bound := func(key string, lim int64) (int64, bool) {
		mm, ok := limSeen[key]
		if !ok {
			mm = [2]int64{lim, lim}
		}
		if lim < mm[0] {
			mm[0] = lim
		}
		if lim > mm[1] {
			mm[1] = lim
		}
		limSeen[key] = mm
		if mm[0] != mm[1] {
			s.FaultFired("share_changed_within_a_window")
		}
		return mm[1], mm[0] == mm[1]
	}
	type verdict struct {
		pass   bool
		status int
		err    error
	}
	call := func(r *c09remedy, grp string, id string) verdict {
		h := map[string]string{}
		if grp != "" {
			h["X-Grp"] = grp
		}
		act, err := plugin.OnRequest(lunarMessages.OnRequest{ID: id, Headers: h}, r.rem)
		v := verdict{err: err}
		switch a := act.(type) {
		case *actions.NoOpAction:
			v.pass = true
		case *actions.EarlyResponseAction:
			v.status = a.Status
		default:
			v.err = fmt.Errorf("unexpected action %T", act)
		}
		return v
	}
	// limitFor returns (limit, counted, always): counted=false means the request
	// is decided without counting (default behaviour allow/block/undefined).
	limitFor := func(r *c09remedy, grp string) (lim int64, counted bool, always bool) {
		if !r.grouped {
			return r.allowed, true, false
		}
		if p, ok := r.pct10[grp]; ok {
			return ceilDiv(r.allowed*int64(p), 1000), true, false
		}
		switch r.def {
		case "allow", "":
			return 0, false, true
		case "block":
			return 0, false, false
		}
		return ceilDiv(r.allowed*int64(r.defPct10), 1000), true, false
	}
	groups := []string{"", "a", "b", "c", "d", "A", "Gold", "gold", "C"}
	n := 0
	for op := 0; op < nOps && !s.Failed(); op++ {
		r := rems[tp.Choose(len(rems))]
		if shareChanges && tp.Chance(1, 6) {
			// a reload that keeps the window size and changes the allowance or a percentage
			if r.grouped && len(r.pct10) > 0 && tp.Chance(1, 2) {
				gs := sortedKeys(r.pct10)
				g := gs[tp.Choose(len(gs))]
				r.pct10[g] = pcts[tp.Choose(len(pcts))]
				for i := range r.cfg.GroupQuotaAllocation.Groups {
					if r.cfg.GroupQuotaAllocation.Groups[i].GroupHeaderValue == g {
						r.cfg.GroupQuotaAllocation.Groups[i].AllocationPercentage = float64(r.pct10[g]) / 10
					}
				}
				s.Event("percentage", r.name, g, fmt.Sprint(r.pct10[g]))
			} else {
				r.allowed = int64(tp.Range(1, 6))
				r.cfg.AllowedRequestCount = r.allowed
				s.Event("allowance", r.name, fmt.Sprint(r.allowed))
			}
		}
		if changeP > 0 && tp.Chance(changeP, 10) {
			r.winS = wins[tp.Choose(len(wins))]
			r.cfg.WindowSizeInSeconds = r.winS
			s.Event("window-size", r.name, fmt.Sprint(r.winS))
		}
		W := time.Duration(r.winS) * time.Second
		now := s.Now()
		nb := (now/W + 1) * W
		targets := []time.Duration{now, now + time.Microsecond, nb, nb - 1, nb + 1, now + time.Duration(tp.Choose(int(W/time.Millisecond)+1))*time.Millisecond,
			nb + time.Duration(tp.Choose(4))*W, nb + time.Duration(tp.Choose(4))*W + W/2}
		s.SleepUntil(targets[tp.Choose(len(targets))])
		if metricsReads && tp.Chance(1, 3) {
			// the quota gauge is read (a metrics collection): an observation, it changes nothing
			_ = rateState.Counters()
			s.FaultFired("quota_gauge_read_between_requests")
		}
		unix := time.Now().UnixNano()
		k := unix / int64(W)
		expStatus := r.status
		if expStatus == 0 {
			expStatus = 429
		}
		if burstP > 0 && tp.Chance(burstP, 10) {
			nb := tp.Range(2, 5)
			grp := groups[tp.Choose(len(groups))]
			if !r.grouped {
				grp = ""
			}
			// a burst; in a third of them some requests are held at a lock site while the
			// clock crosses the end of the window and further requests arrive
			res := make([]verdict, 0, 2*nb)
			type span struct{ kFrom, kTo int64 }
			var spans []span
			inBurst = true
			spawn := func(cnt int) {
				for i := 0; i < cnt; i++ {
					idx := len(res)
					res = append(res, verdict{})
					spans = append(spans, span{})
					n++
					id := fmt.Sprintf("t%d", n)
					s.Spawn(id, func() {
						spans[idx].kFrom = time.Now().UnixNano() / int64(W)
						res[idx] = call(r, grp, id)
						spans[idx].kTo = time.Now().UnixNano() / int64(W)
					})
				}
			}
			spawn(nb)
			hold := tp.Chance(1, 3)
			held := false
			for st := 0; st < 3000; st++ {
				p := s.ParkedTasks()
				if len(p) == 0 {
					break
				}
				if hold && !held && st >= 1 && tp.Chance(1, 4) {
					held = true
					nowU := time.Now().UnixNano()
					next := (nowU/int64(W) + 1) * int64(W)
					s.Sleep(time.Duration(next-nowU) + time.Duration(tp.Choose(3))*time.Millisecond)
					spawn(tp.Range(1, 3))
					s.FaultFired("request_held_across_window_end")
					continue
				}
				s.Resume(p[tp.Choose(len(p))])
			}
			inBurst = false
			s.FaultFired("concurrent_burst")
			lim, counted, _ := limitFor(r, grp)
			passes := int64(0)
			for _, v := range res {
				if v.pass {
					passes++
				}
			}
			s.Event("burst", r.name, grp, fmt.Sprintf("n=%d passes=%d held=%v", len(res), passes, held))
			if counted && !held {
				key, _ := model(r, grp, k)
				lim, _ = bound(key, lim)
				s.Rule("R1")
				if counts[key]+passes > lim {
					s.Violate("R1", "window-exceeded-concurrent", "remedy %s group %q grid window %d: %d passed before + %d passed concurrently > limit %d", r.name, grp, k, counts[key], passes, lim)
				}
				counts[key] += passes
				s.Nontrivial()
			}
			if counted && held {
				// a request that was under way while the window ended may be counted in
				// either window; the others belong to the window they ran in
				k2 := k + 1
				key1, _ := model(r, grp, k)
				key2, _ := model(r, grp, k2)
				b1, _ := bound(key1, lim)
				b2, _ := bound(key2, lim)
				if b2 > b1 {
					b1 = b2
				}
				lim = b1
				f1, f2, flex := counts[key1], counts[key2], int64(0)
				for i, v := range res {
					if !v.pass {
						continue
					}
					switch {
					case spans[i].kTo <= k:
						f1++
					case spans[i].kFrom >= k2:
						f2++
					default:
						flex++
					}
				}
				s.Rule("R1")
				if f1 > lim || f2 > lim || f1+f2+flex > 2*lim {
					s.Violate("R1", "window-exceeded-concurrent", "remedy %s group %q: %d passed in grid window %d, %d in window %d and %d were under way while the window ended; at most %d may pass per window", r.name, grp, f1, k, f2, k2, flex, lim)
				}
				room := lim - f1
				if room < 0 {
					room = 0
				}
				if flex < room {
					room = flex
				}
				counts[key1], counts[key2] = f1+room, f2+flex-room
				fuzzy[key1], fuzzy[key2] = true, true
				s.Nontrivial()
			}
			continue
		}
		grp := groups[tp.Choose(len(groups))]
		if !r.grouped {
			grp = ""
		}
		n++
		v := call(r, grp, fmt.Sprintf("t%d", n))
		s.Event("request", r.name, grp, fmt.Sprintf("pass=%v status=%d", v.pass, v.status))
		if v.err != nil {
			s.Violate("R3", "plugin-error", "OnRequest returned an error: %v", v.err)
			break
		}
		lim, counted, always := limitFor(r, grp)
		if !v.pass {
			s.Rule("R3")
			if v.status != expStatus {
				s.Violate("R3", "wrong-status", "rejection of remedy %s carried status %d, configured %d", r.name, v.status, expStatus)
			}
		}
		if !counted {
			s.Rule("R2")
			if v.pass != always {
				s.Violate("R2", "default-behaviour", "remedy %s group %q (default %q): pass=%v", r.name, grp, r.def, v.pass)
			}
			continue
		}
		key, exact := model(r, grp, k)
		lim, same := bound(key, lim)
		exact = exact && same
		s.Rule("R1")
		s.Rule("R2")
		s.State(fmt.Sprintf("%d/%d", counts[key], lim))
		off := time.Duration(unix % int64(W))
		switch {
		case v.pass && counts[key] >= lim:
			s.Violate("R1", "window-exceeded", "remedy %s group %q: request at offset %v of grid window %d (length %v) passed although %d of %d already passed in that window", r.name, grp, off, k, W, counts[key], lim)
		case !v.pass && counts[key] < lim && exact && !fuzzy[key]:
			s.Violate("R2", "spurious-rejection", "remedy %s group %q: request at offset %v of grid window %d (length %v) rejected although only %d of %d passed in that window", r.name, grp, off, k, W, counts[key], lim)
		}
		if v.pass {
			counts[key]++
		} else {
			s.Nontrivial()
		}
		if precise && exact && !fuzzy[key] && tp.Chance(1, 2) {
			// fill the share at this instant: exactly lim requests pass in the window
			for counts[key] < lim+1 && !s.Failed() {
				n++
				fv := call(r, grp, fmt.Sprintf("t%d", n))
				if fv.pass && counts[key] >= lim {
					s.Violate("R1", "window-exceeded", "remedy %s group %q: request %d of grid window %d passed, its share is ceil(%d * %v%%) = %d", r.name, grp, counts[key]+1, k, r.allowed, float64(r.pct10[grp])/10, lim)
					break
				}
				if !fv.pass {
					if counts[key] < lim {
						s.Violate("R2", "spurious-rejection", "remedy %s group %q: rejected after %d passes in grid window %d, its share is %d", r.name, grp, counts[key], k, lim)
					}
					break
				}
				counts[key]++
			}
			s.FaultFired("share_filled_to_the_brim")
		}
	}
}
