package scen

import (
	"bytes"
	"crypto/sha256"
	"encoding/base64"
	"encoding/hex"
	"encoding/json"
	"errors"
	"fmt"
	"net/http"
	"net/http/httptest"
	"os"
	"path/filepath"
	"sort"
	"strings"
	"time"

	"lunar/engine/actions"
	"lunar/engine/routing"
	"lunar/engine/streams"

	"verifsim/kernel"
)

// C08 — a configuration update is all-or-nothing. Real streams-mode
// HandlingDataManager (verif-only constructor), real /configuration and
// /apply_flows handlers via httptest, real FileSystemOperation on a per-run
// temporary tree, real validation and reload, simulated HAProxy.
// C08E enumerates single faults (one run = endpoint x payload class x fault
// point); C08S draws fault pairs/triples and concurrent probe transactions.
// DESIGN.md section 4, C08.

func init() {
	register(&Scenario{ID: "C08E", Run: func(s *kernel.Sim) { runC08(s, true) }})
	register(&Scenario{ID: "C08S", Run: func(s *kernel.Sim) { runC08(s, false) }})
}

var c08Classes = []string{"change-flow", "add-flow", "remove-flow", "bad-base64", "invalid-flow", "bad-quota", "gateway-config-only", "change-flow+quota", "shrink-flow", "bad-metrics", "change-metrics",
	// the same on a gateway that has no configuration file at all yet (nothing to back up)
	"fresh+add-flow", "fresh+invalid-flow"}

func probeFlow(name, url string, status int) string {
	return flowDef{
		Name: name, URL: url,
		Procs: []procDef{
			{Key: "flt", Type: "Filter", Params: [][2]string{{"header", "x-skip=1"}}},
			{Key: "gen", Type: "GenerateResponse", Params: [][2]string{{"status", fmt.Sprint(status)}, {"body", name}}},
		},
		Req: []connDef{
			{FromStream: "start", ToProc: "flt"},
			{FromProc: "flt", Cond: "hit", ToStream: "end"},
			{FromProc: "flt", Cond: "miss", ToProc: "gen"},
		},
		Resp: []connDef{{FromProc: "gen", ToStream: "end"}},
	}.YAML()
}

const c08Quota = "quotas:\n  - id: cq\n    filter:\n      url: a.com/p1\n    strategy:\n      fixed_window:\n        max: 100000\n        interval: 1\n        interval_unit: minute\n"

type c08env struct {
	dir string
	mgr *routing.HandlingDataManager
	mux *http.ServeMux
	hp  *simHAProxy
}

func c08setEnv(dir string) {
	setEngineEnv(dir)
	os.Setenv("LUNAR_PROXY_CONFIG", filepath.Join(dir, "gateway_config.yaml"))
	os.Setenv("LUNAR_PROXY_METRICS_CONFIG", filepath.Join(dir, "metrics.yaml"))
	os.Setenv("LUNAR_PROXY_METRICS_CONFIG_DEFAULT", filepath.Join(filepath.Dir(dir), "default-metrics-"+filepath.Base(dir)+".yaml"))
	os.Setenv("DISCOVERY_STATE_LOCATION", filepath.Join(filepath.Dir(dir), "discovery-"+filepath.Base(dir)+".json"))
	os.Setenv("LUNAR_FLOWS_PATH_PARAM_CONFIG", filepath.Join(filepath.Dir(dir), "pp-"+filepath.Base(dir)+".yaml"))
}

func c08Old() map[string]string {
	m, _ := os.ReadFile("/repo/proxy/metrics.yaml")
	return map[string]string{
		"flows/f1.yaml":       probeFlow("f1", "a.com/p1", 411),
		"flows/f2.yaml":       probeFlow("f2", "a.com/p2", 412),
		"quotas/q.yaml":       c08Quota,
		"gateway_config.yaml": "gateway:\n  note: old\n",
		"metrics.yaml":        string(m),
	}
}

func newC08Env(s *kernel.Sim, files map[string]string, hp *simHAProxy) (*c08env, error) {
	dir := runTmp(s)
	if err := writeTree(dir, files); err != nil {
		return nil, err
	}
	c08setEnv(dir)
	m, _ := os.ReadFile("/repo/proxy/metrics.yaml")
	os.WriteFile(os.Getenv("LUNAR_PROXY_METRICS_CONFIG_DEFAULT"), m, 0o644)
	tmpDirs = append(tmpDirs, os.Getenv("LUNAR_PROXY_METRICS_CONFIG_DEFAULT"), os.Getenv("LUNAR_FLOWS_PATH_PARAM_CONFIG"))
	mgr, err := routing.NewVerifStreamsManager()
	if err != nil {
		return nil, err
	}
	mux := http.NewServeMux()
	mgr.SetHandleRoutes(mux)
	return &c08env{dir: dir, mgr: mgr, mux: mux, hp: hp}, nil
}

// digest maps every file under dir (relative path) to the SHA-256 of its content.
func dirDigest(dir string) map[string]string {
	out := map[string]string{}
	filepath.Walk(dir, func(p string, info os.FileInfo, err error) error {
		if err != nil || info.IsDir() {
			return nil
		}
		b, _ := os.ReadFile(p)
		h := sha256.Sum256(b)
		rel, _ := filepath.Rel(dir, p)
		out[rel] = hex.EncodeToString(h[:8])
		return nil
	})
	// the gateway's built-in default metrics file lives outside the configuration
	// directory; it is a configuration file too and no update may touch it
	if b, err := os.ReadFile(os.Getenv("LUNAR_PROXY_METRICS_CONFIG_DEFAULT")); err == nil {
		h := sha256.Sum256(b)
		out[c08DefaultMetrics] = hex.EncodeToString(h[:8])
	}
	return out
}

const c08DefaultMetrics = "<built-in default metrics file>"

func digestOf(files map[string]string) map[string]string {
	out := map[string]string{}
	for k, v := range files {
		h := sha256.Sum256([]byte(v))
		out[k] = hex.EncodeToString(h[:8])
	}
	return out
}

func diffDigest(a, b map[string]string) string {
	var d []string
	keys := map[string]bool{}
	for k := range a {
		keys[k] = true
	}
	for k := range b {
		keys[k] = true
	}
	ks := make([]string, 0, len(keys))
	for k := range keys {
		ks = append(ks, k)
	}
	sort.Strings(ks)
	for _, k := range ks {
		switch {
		case a[k] == b[k]:
		case a[k] == "":
			d = append(d, "+"+k)
		case b[k] == "":
			d = append(d, "-"+k)
		default:
			d = append(d, "~"+k)
		}
	}
	return strings.Join(d, " ")
}

var c08Probes = [][2]string{{"GET", "/p1"}, {"GET", "/p2"}, {"GET", "/p3"}, {"GET", "/p4"}, {"POST", "/p1"}, {"GET", "/zz"}, {"GET", "/p5"}}

func verdictOf(acts []actions.ReqLunarAction, err error) string {
	if err != nil {
		return "error"
	}
	for _, a := range acts {
		if er, ok := a.(*actions.EarlyResponseAction); ok {
			return fmt.Sprint(er.Status)
		}
	}
	return "pass"
}

func (e *c08env) probe(i int, id string) string {
	p := c08Probes[i]
	fa, err := e.mgr.VerifOnRequest(reqMsg(id, p[0], "a.com", p[1], nil))
	if fa == nil || fa.Request == nil {
		return verdictOf(nil, errors.New("no actions"))
	}
	return verdictOf(fa.Request.Actions, err)
}

func (e *c08env) probeAll(tag string) []string {
	v := make([]string, len(c08Probes))
	for i := range c08Probes {
		v[i] = e.probe(i, fmt.Sprintf("%s-%d", tag, i))
	}
	return v
}

// freshVerdicts loads a new engine from dir and probes it (the reference for
// "what this directory means").
func freshVerdicts(dir string) ([]string, error) {
	c08setEnv(dir)
	st, err := streams.NewStream()
	if err != nil {
		return nil, err
	}
	if err := st.Initialize(); err != nil {
		return nil, err
	}
	v := make([]string, len(c08Probes))
	env := &engineEnv{Dir: dir, Stream: st, Shared: newShared()}
	for i, p := range c08Probes {
		out := env.doRequest(reqMsg(fmt.Sprintf("fresh-%d", i), p[0], "a.com", p[1], nil))
		switch {
		case out.Err != nil:
			v[i] = "error"
		case out.Early:
			v[i] = fmt.Sprint(out.Status)
		default:
			v[i] = "pass"
		}
	}
	return v, nil
}

// c08Payload builds the request body for a payload class and returns the files
// the directory must contain after a successful update.
func c08Payload(class string, endpoint string, old map[string]string) (body []byte, expect map[string]string, valid bool) {
	b64 := func(s string) string { return base64.StdEncoding.EncodeToString([]byte(s)) }
	flows := map[string]string{}
	quotas := map[string]string{}
	gw, metricsCfg := "", ""
	valid = true
	complete := endpoint == "/apply_flows" // apply_flows replaces everything: send the complete set
	if complete && len(old) > 0 {
		for _, f := range []string{"f1.yaml", "f2.yaml"} {
			if v, ok := old["flows/"+f]; ok {
				flows[f] = v
			}
		}
		if v, ok := old["quotas/q.yaml"]; ok {
			quotas["q.yaml"] = v
		}
	}
	raw := map[string]string{} // entries put into the JSON verbatim (not base64 of content)
	switch class {
	case "change-flow":
		flows["f1.yaml"] = probeFlow("f1", "a.com/p1", 421)
	case "shrink-flow": // an existing file name with shorter content
		flows["f1.yaml"] = strings.Replace(probeFlow("f1", "a.com/p1", 421), "      - key: body\n        value: f1\n", "", 1)
		gw = "g: 1\n"
	case "add-flow":
		flows["f3.yaml"] = probeFlow("f3", "a.com/p3", 413)
	case "remove-flow":
		delete(flows, "f2.yaml")
		if !complete {
			flows["f1.yaml"] = probeFlow("f1", "a.com/p1", 421)
		}
	case "bad-base64":
		flows["f1.yaml"] = probeFlow("f1", "a.com/p1", 421)
		raw["f3.yaml"] = "%%%not-base64%%%"
		valid = false
	case "invalid-flow":
		flows["f1.yaml"] = probeFlow("f1", "a.com/p1", 421)
		flows["f3.yaml"] = strings.Replace(probeFlow("f3", "a.com/p3", 413), "name: gen\n", "name: missing\n", 1)
		valid = false
	case "bad-quota":
		flows["f1.yaml"] = probeFlow("f1", "a.com/p1", 421)
		quotas["q.yaml"] = "quotas:\n  - id: cq\n    strategy:\n      fixed_window:\n        max: -5\n        interval: 0\n        interval_unit: fortnight\n"
		valid = false
	case "gateway-config-only":
		gw = "gateway:\n  note: new\n"
		if complete {
			// apply_flows wipes everything first; a gateway-only payload leaves no flows
			flows, quotas = map[string]string{}, map[string]string{}
		}
	case "bad-metrics": // valid flows, a metrics file that does not load: rejected at the last reload step
		flows["f1.yaml"] = probeFlow("f1", "a.com/p1", 421)
		metricsCfg = "general_metrics:\n  label_value: [unclosed\n\t- broken: yes\n"
		valid = false
	case "change-metrics":
		flows["f1.yaml"] = probeFlow("f1", "a.com/p1", 421)
		metricsCfg = old["metrics.yaml"] + "\n# changed\n"
	case "change-flow+quota":
		flows["f2.yaml"] = probeFlow("f2", "a.com/p4", 414)
		quotas["q2.yaml"] = strings.ReplaceAll(strings.ReplaceAll(c08Quota, "cq", "cq2"), "a.com/p1", "b.io/x") // one quota file per host
	}
	payload := map[string]any{}
	fm := map[string]string{}
	for k, v := range flows {
		fm[k] = b64(v)
	}
	for k, v := range raw {
		fm[k] = v
	}
	if len(fm) > 0 || complete {
		payload["flows"] = fm
	}
	qm := map[string]string{}
	for k, v := range quotas {
		qm[k] = b64(v)
	}
	if len(qm) > 0 {
		payload["quotas"] = qm
	}
	if gw != "" {
		payload["gateway_config"] = b64(gw)
	}
	if metricsCfg != "" {
		payload["metrics"] = b64(metricsCfg)
	}
	body, _ = json.Marshal(payload)
	expect = map[string]string{}
	if !complete {
		for k, v := range old {
			expect[k] = v
		}
	}
	for k, v := range flows {
		expect["flows/"+k] = v
	}
	for k, v := range quotas {
		expect["quotas/"+k] = v
	}
	if gw != "" {
		expect["gateway_config.yaml"] = gw
	}
	if metricsCfg != "" {
		expect["metrics.yaml"] = metricsCfg
	}
	dm, _ := os.ReadFile("/repo/proxy/metrics.yaml")
	expect[c08DefaultMetrics] = string(dm) // written by newC08Env from the same source, never to change
	return body, expect, valid
}

type c08fault struct {
	key  string // "fs.write|<rel path>|<occurrence>" or "haproxy|<METHOD path>|<occurrence>"
	mode string // error kind for haproxy: "500" or "err"
}

func runC08(s *kernel.Sim, enumerate bool) {
	tp := s.Tape
	endpoints := []string{"/configuration", "/apply_flows"}
	var endpoint, class string
	var faultIdx []int
	concurrent := false
	if enumerate {
		// the seed is an index into endpoint x class x fault point
		i := int(s.Seed % 100000)
		endpoint = endpoints[i%2]
		class = c08Classes[(i/2)%len(c08Classes)]
		faultIdx = []int{i/(2*len(c08Classes)) - 1} // -1 = fault-free
		tp.Choose(2)                                // keep the tape non-empty for replay
	} else {
		endpoint = endpoints[tp.Choose(2)]
		class = c08Classes[tp.Choose(len(c08Classes))]
		nf := tp.Weighted([]int{3, 2, 2, 1}) // single faults are enumerated by C08E; here the overlap with transactions matters more
		for i := 0; i < nf; i++ {
			faultIdx = append(faultIdx, tp.Choose(60))
		}
		concurrent = tp.Chance(2, 3)
	}
	s.Knobs["endpoint"], s.Knobs["class"], s.Knobs["fault_index"], s.Knobs["concurrent_probes"] = endpoint, class, faultIdx, concurrent
	s.LogEngineEvents = false
	s.MixSig(endpoint, class, fmt.Sprint(faultIdx))

	hp := installHAProxy()
	old := c08Old()
	if strings.HasPrefix(class, "fresh+") {
		old = map[string]string{}
		class = strings.TrimPrefix(class, "fresh+")
		s.Knobs["fresh_gateway"] = true
	}
	// one sampled run in six: one configuration file is larger than a megabyte
	// (a flow file followed by 1.3 MB of comment lines)
	if !enumerate && len(old) > 0 && tp.Chance(1, 6) {
		old["flows/f1.yaml"] += strings.Repeat("# "+strings.Repeat("padding ", 15)+"\n", 11000)
		s.Knobs["large_file"] = true
	}
	// one sampled run in six: a configuration file in a sub-directory of the flows directory
	if !enumerate && len(old) > 0 && tp.Chance(1, 6) {
		old["flows/team-a/f4.yaml"] = probeFlow("f4", "a.com/p6", 416)
		s.Knobs["nested_file"] = true
	}
	// one sampled run in six: a configuration file that exists and is empty
	if !enumerate && len(old) > 0 && tp.Chance(1, 6) {
		old["gateway_config.yaml"] = ""
		s.Knobs["empty_file"] = true
	}
	// history: in a quarter of the sampled runs an accepted /apply_flows that removed
	// a flow file precedes the judged update on the same gateway; "before" is then
	// the configuration that update left
	old0 := old
	var prelude []byte
	if !enumerate && len(old) > 0 && tp.Chance(1, 4) {
		if pb, pExpect, pValid := c08Payload("remove-flow", "/apply_flows", old); pValid {
			prelude, old = pb, pExpect
		}
	}
	s.Knobs["preceded_by_accepted_removal"] = prelude != nil
	mkEnv := func() (*c08env, error) {
		e, err := newC08Env(s, old0, hp)
		if err != nil || prelude == nil {
			return e, err
		}
		r := httptest.NewRecorder()
		e.mux.ServeHTTP(r, httptest.NewRequest(http.MethodPut, "/apply_flows", bytes.NewReader(prelude)))
		if r.Code != 200 {
			return nil, fmt.Errorf("the preceding fault-free /apply_flows answered %d: %s", r.Code, strings.TrimSpace(r.Body.String()))
		}
		if d := diffDigest(digestOf(old), dirDigest(e.dir)); d != "" {
			return nil, fmt.Errorf("the preceding fault-free /apply_flows left %s", d)
		}
		return e, nil
	}
	body, expectFiles, valid := c08Payload(class, endpoint, old)

	// ---- phase 1: fault-free recording run lists the fault points of this update ----
	var recorded []string
	occ := map[string]int{}
	var relBase string
	record := func(kind, what string) string {
		k := kind + "|" + what
		occ[k]++
		return fmt.Sprintf("%s|%d", k, occ[k])
	}
	recording := false
	// Fault points reached after the handler has begun to restore the backup
	// belong to the recovery path: a fault there is a second failure on top of
	// the rejection, which no implementation without transactions can mask.
	// They are excluded from the single-fault enumeration and only used by the
	// multi-fault scenario (where disk/behaviour equality is not demanded).
	inRecovery := false
	var recoveryPoints []string
	s.OnEvent = func(kind string, _ []string) {
		if kind == "fs.restore.begin" {
			inRecovery = true
		}
	}
	s.FaultOn = func(point string, a []string) error {
		if point == "trylock" || point == "proc.execute" { // the handler's own mutual exclusion and processor executions are not fault points here
			return nil
		}
		if recording {
			rel, _ := filepath.Rel(relBase, a[0])
			k := record(point, rel)
			if inRecovery {
				recoveryPoints = append(recoveryPoints, k)
			} else {
				recorded = append(recorded, k)
			}
		}
		return nil
	}
	hp.Fail = func(method, path, _ string) string {
		if recording {
			k := record("haproxy", method+" "+path)
			if inRecovery {
				recoveryPoints = append(recoveryPoints, k)
			} else {
				recorded = append(recorded, k)
			}
		}
		return ""
	}
	env1, err := mkEnv()
	if err != nil {
		s.HarnessErr = "cannot build C08 environment: " + err.Error()
		return
	}
	relBase = env1.dir
	recording = true
	rec1 := httptest.NewRecorder()
	env1.mux.ServeHTTP(rec1, httptest.NewRequest(http.MethodPut, endpoint, bytes.NewReader(body)))
	recording = false
	sort.Strings(recorded)
	sort.Strings(recoveryPoints)
	if !enumerate {
		recorded = append(recorded, recoveryPoints...)
	}
	isRecovery := map[string]bool{}
	for _, k := range recoveryPoints {
		isRecovery[k] = true
	}
	// fault-free judgement
	s.Rule("R3")
	ok1 := rec1.Code == 200
	if valid && !ok1 {
		s.Violate("R3", "valid-update-rejected:"+class, "fault-free %s with a valid %s payload answered %d: %s", endpoint, class, rec1.Code, strings.TrimSpace(rec1.Body.String()))
		return
	}
	if !valid && ok1 {
		s.Violate("R1", "invalid-update-accepted:"+class, "fault-free %s with an invalid %s payload answered 200", endpoint, class)
		return
	}
	if ok1 {
		if d := diffDigest(digestOf(expectFiles), dirDigest(env1.dir)); d != "" {
			s.Violate("R3", "success-but-wrong-files:"+endpoint, "%s answered 200 but the directory differs from old+payload: %s", endpoint, d)
			return
		}
	}

	// ---- phase 2: same update on a fresh environment with the chosen faults ----
	var faults []c08fault
	for _, fi := range faultIdx {
		if fi >= 0 && len(recorded) > 0 {
			idx := fi
			if !enumerate {
				idx = fi % len(recorded)
			}
			if idx < len(recorded) {
				f := c08fault{key: recorded[idx], mode: "500"}
				if strings.HasPrefix(f.key, "haproxy") && tp.Choose(2) == 1 {
					f.mode = "err"
				}
				faults = append(faults, f)
			}
		}
	}
	s.Knobs["faults"] = fmt.Sprint(faults)
	s.Knobs["fault_points_of_this_update"] = len(recorded)
	occ = map[string]int{}
	fired := map[string]bool{}
	armed := func(key string) *c08fault {
		for i := range faults {
			if faults[i].key == key {
				return &faults[i]
			}
		}
		return nil
	}
	active := false
	inRecovery = false
	faultInRecovery := false
	s.FaultOn = func(point string, a []string) error {
		if !active || point == "trylock" || point == "proc.execute" {
			return nil
		}
		rel, _ := filepath.Rel(relBase, a[0])
		key := record(point, rel)
		if f := armed(key); f != nil {
			fired[key] = true
			if inRecovery {
				faultInRecovery = true
			}
			s.FaultFired(point)
			s.Event("fault", key)
			return fmt.Errorf("injected %s failure on %s", point, rel)
		}
		return nil
	}
	hp.Fail = func(method, path, _ string) string {
		if !active {
			return ""
		}
		key := record("haproxy", method+" "+path)
		if f := armed(key); f != nil {
			fired[key] = true
			if inRecovery {
				faultInRecovery = true
			}
			s.FaultFired("haproxy." + f.mode)
			s.Event("fault", key, f.mode)
			return f.mode
		}
		return ""
	}
	env, err := mkEnv()
	if err != nil {
		s.HarnessErr = "cannot build C08 environment (phase 2): " + err.Error()
		return
	}
	relBase = env.dir
	before := dirDigest(env.dir)
	vOld := env.probeAll("old")
	s.Event("before", strings.Join(vOld, ","))

	// the update runs as a task; probes may overlap it
	var rec *httptest.ResponseRecorder
	siteOn, density := lockSites(tp)
	s.Knobs["lock_sites"] = density
	s.YieldOn = func(point string, a []string, harness bool) bool {
		if !harness || !concurrent {
			return false
		}
		if isLockPoint(point) {
			return siteOn(a[0])
		}
		return point == "reload.published_not_initialised" || point == "reload.published" || strings.HasPrefix(point, "fault.")
	}
	active = true
	upd := s.Spawn("update", func() {
		rec = httptest.NewRecorder()
		env.mux.ServeHTTP(rec, httptest.NewRequest(http.MethodPut, endpoint, bytes.NewReader(body)))
	})
	type during struct {
		i     int
		v     string
		multi bool // finished after a second failure had hit this update (see multiFailure)
	}
	var seen []during
	nProbe := 0
	// a second, unrelated update (it adds one flow on /p5) sent while the first one
	// is still being handled: it is either refused at once and leaves no trace, or
	// it is answered 200 and then has to be in force
	secondUpdate := concurrent && !enumerate && tp.Chance(1, 3)
	s.Knobs["second_update_during_the_first"] = secondUpdate
	var rec2 *httptest.ResponseRecorder
	var upd2 *kernel.Task
	body2, _ := json.Marshal(map[string]any{"flows": map[string]string{"fb.yaml": base64.StdEncoding.EncodeToString([]byte(probeFlow("fb", "a.com/p5", 415)))}})
	for st := 0; st < 6000; st++ {
		p := s.ParkedTasks()
		// (not while the first one still stands in front of the handler's guard - the
		// non-waiting lock attempt is a scheduling point too: a second update that runs
		// there simply comes first, one after the other)
		if secondUpdate && upd2 == nil && upd.Parked() && upd.Point != "task.start" && upd.Point != "fault.trylock" && tp.Chance(1, 6) {
			upd2 = s.Spawn("update2", func() {
				rec2 = httptest.NewRecorder()
				env.mux.ServeHTTP(rec2, httptest.NewRequest(http.MethodPut, "/configuration", bytes.NewReader(body2)))
			})
			s.FaultFired("second_update_during_the_first")
			continue
		}
		if len(p) == 0 {
			if upd.Done() && (upd2 == nil || upd2.Done()) {
				break
			}
			s.Sleep(250 * time.Millisecond) // the update waits on fake time (health-check retries)
			continue
		}
		// right after the new engine is published is where a transaction can meet a
		// configuration that is rejected a moment later: probe there more often
		justPublished := upd.Parked() && upd.Point == "reload.published"
		if justPublished {
			s.Probe("update_parked_right_after_publish")
		}
		if concurrent && !upd.Done() && upd.Point != "task.start" && ((nProbe < 6 && tp.Chance(1, 4)) || (justPublished && nProbe < 9 && tp.Chance(1, 2))) {
			nProbe++
			i := tp.Choose(len(c08Probes))
			d := &during{i: i}
			id := fmt.Sprintf("during-%d", nProbe)
			pt := s.Spawn(id, func() {
				d.v = env.probe(i, id)
				d.multi = len(fired) > 1 || faultInRecovery
				seen = append(seen, *d)
			})
			s.FaultFired("probe_during_update")
			if justPublished && tp.Chance(1, 2) {
				// let this transaction finish while the update still stands right behind
				// the publication of the new engine
				for k := 0; k < 200 && !pt.Done(); k++ {
					if !pt.Parked() {
						break
					}
					s.Resume(pt)
				}
				s.FaultFired("transaction_completed_right_after_publish")
			}
			continue
		}
		s.Resume(p[tp.Choose(len(p))])
	}
	active = false
	if s.Failed() {
		return
	}
	if rec == nil || !upd.Done() {
		s.Violate("R1", "update-did-not-finish", "%s did not return", endpoint)
		return
	}
	code := rec.Code
	if upd2 != nil && upd2.Done() && rec2 != nil {
		// R5: the overlapping second update
		s.Rule("R5")
		onDisk := false
		if _, err := os.Stat(filepath.Join(env.dir, "flows", "fb.yaml")); err == nil {
			onDisk = true
		}
		serves := env.probe(6, "after-second") == "415"
		s.Event("second-update", fmt.Sprint(rec2.Code), fmt.Sprintf("on_disk=%v serves=%v", onDisk, serves))
		switch {
		case rec2.Code == 200 && !(onDisk && serves) && !(len(fired) > 0):
			s.Violate("R5", "accepted-update-not-in-force", "a second update sent during %s was answered 200, but afterwards its flow file on disk=%v and its flow serves=%v (the first update was answered %d)", endpoint, onDisk, serves, code)
		case rec2.Code != 200 && (onDisk || serves) && !(len(fired) > 1 || faultInRecovery):
			// (the armed faults may hit the second update as well: with more than one of
			// them, or one inside a recovery, its roll-back is outside the fault model too)
			s.Violate("R5", "refused-update-left-traces", "a second update sent during %s was answered %d, but afterwards its flow file on disk=%v and its flow serves=%v", endpoint, rec2.Code, onDisk, serves)
		}
	}
	after := dirDigest(env.dir)
	vAfter := env.probeAll("after")
	if rec2 != nil && rec2.Code == 200 {
		// the second update went through (it may have started when the first one had
		// already given up the handler): its own effects are judged by R5 above and
		// are not held against the first update
		delete(after, "flows/fb.yaml")
		vAfter[6] = vOld[6]
	}
	s.Event("after", fmt.Sprint(code), strings.Join(vAfter, ","), diffDigest(before, after))
	anyFired := len(fired) > 0
	if anyFired || !valid {
		s.Nontrivial()
	}
	faultDesc := "no fault"
	if anyFired {
		var ks []string
		for k := range fired {
			ks = append(ks, strings.SplitN(k, "|", 2)[0])
		}
		sort.Strings(ks)
		faultDesc = strings.Join(ks, "+")
	}
	payloadKind := "valid-payload"
	if !valid {
		payloadKind = "rejected-payload:" + class
	}
	// more than one failure (several faults, or a fault while the gateway is
	// already restoring after a failure) cannot be masked without transactions:
	// only R3/R4 and survival are judged then
	multiFailure := len(fired) > 1 || faultInRecovery
	if multiFailure {
		s.Probe("multi_failure_run")
	}
	if code != 200 && !multiFailure {
		s.Rule("R1")
		if d := diffDigest(before, after); d != "" {
			s.Violate("R1", fmt.Sprintf("disk-changed-after-failed-update:%s:%s", endpoint, payloadKind),
				"%s (%s payload, %s) answered %d but the configuration on disk changed: %s", endpoint, class, faultDesc, code, d)
		}
		s.Rule("R2")
		if strings.Join(vOld, ",") != strings.Join(vAfter, ",") {
			s.Violate("R2", fmt.Sprintf("behaviour-changed-after-failed-update:%s:%s", endpoint, payloadKind),
				"%s (%s payload, %s) answered %d but the running flows changed behaviour: before %v after %v", endpoint, class, faultDesc, code, vOld, vAfter)
		}
	} else if code == 200 {
		s.Rule("R3")
		if d := diffDigest(digestOf(expectFiles), after); d != "" && !multiFailure {
			// (also when a fault was met and tolerated: an update that is answered 200 is in
			// force completely, whatever happened on the way)
			s.Violate("R3", "success-but-wrong-files:"+endpoint, "%s (%s) answered 200 but the directory differs from old+payload: %s", endpoint, faultDesc, d)
		}
		vNew, ferr := freshVerdicts(env.dir)
		c08setEnv(env.dir)
		if ferr == nil && rec2 != nil && rec2.Code == 200 {
			vNew[6] = vAfter[6] // the accepted second update is judged by R5
		}
		if ferr != nil {
			s.Violate("R3", "success-but-directory-does-not-load:"+endpoint, "%s answered 200 (%s) but a fresh engine cannot load the resulting directory: %v", endpoint, faultDesc, ferr)
		} else if strings.Join(vNew, ",") != strings.Join(vAfter, ",") {
			s.Violate("R3", "success-but-running-config-differs-from-disk:"+endpoint, "%s answered 200 (%s): running flows answer %v, a fresh engine on the same directory answers %v", endpoint, faultDesc, vAfter, vNew)
		}
	}
	// R4: every probe that ran during the update saw the old or the new configuration
	var vNewRef []string
	if ok1 {
		vNewRef, _ = freshVerdicts(env1.dir)
		c08setEnv(env.dir)
	}
	for _, d := range seen {
		if d.multi {
			// the state a failed recovery leaves behind is outside the fault model
			// (one failure per update), like R1/R2 above
			continue
		}
		if d.i == 6 && secondUpdate && d.v == "415" {
			// the /p5 probe met the flow of the second, overlapping update: that update is
			// judged on its own (R5), not as a trace of the first one
			continue
		}
		s.Rule("R4")
		okv := d.v == vOld[d.i] || (vNewRef != nil && d.v == vNewRef[d.i])
		if okv && code != 200 && d.v != vOld[d.i] {
			// the update was rejected or failed: the running flows keep behaving as
			// before, so no transaction may have been handled by the new configuration
			s.Violate("R4", "probe-during-failed-update-saw-the-rejected-configuration", "a %s %s transaction during %s (answered %d, %s) got %q, the answer of the configuration that was not accepted; the old configuration answers %s",
				c08Probes[d.i][0], c08Probes[d.i][1], endpoint, code, faultDesc, d.v, vOld[d.i])
			continue
		}
		if !okv {
			want := vOld[d.i]
			if vNewRef != nil {
				want += " or " + vNewRef[d.i]
			}
			s.Violate("R4", "probe-during-update-saw-neither-old-nor-new", "a %s %s transaction during %s got %q; old configuration answers %s",
				c08Probes[d.i][0], c08Probes[d.i][1], endpoint, d.v, want)
		}
	}
	s.State(fmt.Sprintf("%s/%s/%d/%d", endpoint, class, code, len(fired)))
}
