package scen

import (
	"bytes"
	"fmt"
	"net/http"
	"net/http/httptest"
	"os"
	"path/filepath"
	"sort"
	"strings"
	"sync"
	"time"

	"lunar/engine/config"
	lunarMessages "lunar/engine/messages"
	"lunar/engine/routing"

	"github.com/negasus/haproxy-spoe-go/message"
	"github.com/negasus/haproxy-spoe-go/payload/kv"
	"github.com/negasus/haproxy-spoe-go/request"

	"verifsim/kernel"
)

// C18 — concurrent transactions do not corrupt or share engine state.
// C18R / C18A: race-instrumented runs, the Go race detector is the monitor
// (see kernel/race.go for why the token scheduler is not used there).
// C18S: serial equivalence under the token scheduler. DESIGN.md section 4, C18.

func init() {
	register(&Scenario{ID: "C18R", Run: runC18R})
	register(&Scenario{ID: "C18A", Run: runC18A})
	register(&Scenario{ID: "C18S", Run: runC18S})
}

const c18ConcQuota = "quotas:\n  - id: cc\n    filter:\n      url: b.io/c\n    strategy:\n      concurrent:\n        max_request_count: 2\n        request_expiration_sec: 3\n        gc_interval_sec: 1\n"

func c18Files() map[string]string {
	m, _ := os.ReadFile("/repo/proxy/metrics.yaml")
	return map[string]string{
		"flows/f1.yaml": probeFlow("f1", "a.com/p1", 411),
		"flows/f2.yaml": probeFlow("f2", "a.com/p2", 412),
		// three inert flows on an enclosing wildcard pattern: the lookup result of a
		// transaction merges them with the flows of the deeper node
		"flows/w1.yaml": inertFlow("w1", "a.com/*"),
		"flows/w2.yaml": inertFlow("w2", "a.com/*"),
		"flows/w3.yaml": inertFlow("w3", "a.com/*"),
		"flows/fl.yaml": limiterFlow("fl", "a.com/l", "cq").YAML(),
		"flows/fc.yaml": limiterFlow("fc", "b.io/c", "cc").YAML(),
		"quotas/q.yaml": strings.ReplaceAll(strings.ReplaceAll(c08Quota, "a.com/p1", "a.com/l"), "max: 100000", "max: 3\n        group_by_header: x-grp") +
			"  - id: qq\n    filter:\n      url: a.com/q\n    strategy:\n      fixed_window:\n        max: 1\n        interval: 1\n        interval_unit: second\n",
		// a Queue processor: its processing loop, TTL watcher and removal goroutines run beside the transactions
		"flows/fq.yaml": flowDef{
			Name: "fq", URL: "a.com/q",
			Procs: []procDef{
				{Key: "queue", Type: "Queue", Params: [][2]string{{"quota_id", "qq"}, {"ttl_seconds", "1"}, {"queue_size", "3"}}},
				{Key: "gen", Type: "GenerateResponse", Params: [][2]string{{"status", "429"}, {"body", "queued-out"}}},
			},
			Req: []connDef{
				{FromStream: "start", ToProc: "queue"},
				{FromProc: "queue", Cond: "allowed", ToStream: "end"},
				{FromProc: "queue", Cond: "blocked", ToProc: "gen"},
			},
			Resp: []connDef{{FromProc: "gen", ToStream: "end"}},
		}.YAML(),
		// a Retry processor on the response path: it keeps its per-sequence counters in
		// the flow's own context, which all transactions through the flow share
		"flows/frt.yaml": flowDef{
			Name: "frt", URL: "a.com/rt",
			Procs: []procDef{
				{Key: "flt", Type: "Filter", Params: [][2]string{{"status_code_range", "500-599"}}},
				{Key: "retry", Type: "Retry", Params: [][2]string{{"attempts", "5"}, {"cooldown_between_attempts_seconds", "0"}, {"cooldown_multiplier", "1"}}},
			},
			Req: []connDef{{FromStream: "start", ToStream: "end"}},
			Resp: []connDef{
				{FromStream: "start", ToProc: "flt"},
				{FromProc: "flt", Cond: "hit", ToProc: "retry"},
				{FromProc: "flt", Cond: "miss", ToStream: "end"},
				{FromProc: "retry", Cond: "retry", ToStream: "end"},
				{FromProc: "retry", Cond: "failed", ToStream: "end"},
			},
		}.YAML(),
		"quotas/qc.yaml":      c18ConcQuota,
		"gateway_config.yaml": "gateway:\n  note: old\n",
		"metrics.yaml":        string(m),
	}
}

// runC18R: overlapping transactions through shared flows and quotas, a metrics
// read, a proxy-error report and a configuration reload, all as plain
// goroutines delayed by the stateless race-mode hooks.
func runC18R(s *kernel.Sim) {
	tp := s.Tape
	nTasks := tp.Range(2, 5)
	withReload := tp.Chance(1, 3)
	withMetrics := tp.Chance(1, 2)
	density := tp.Range(1, 8)
	maxDel := []int{3, 50, 2000}[tp.Choose(3)]
	type plan struct {
		urls []int
		grp  string
	}
	paths := [][2]string{{"a.com", "/p1"}, {"a.com", "/p2"}, {"a.com", "/l"}, {"b.io", "/c"}, {"a.com", "/zz"}, {"a.com", "/q"}, {"a.com", "/rt"}}
	plans := make([]plan, nTasks)
	for i := range plans {
		for k := tp.Range(1, 3); k > 0; k-- {
			plans[i].urls = append(plans[i].urls, tp.Weighted([]int{2, 1, 3, 3, 1, 2, 3}))
		}
		plans[i].grp = []string{"", "a", "b"}[tp.Choose(3)]
	}
	s.Knobs["tasks"], s.Knobs["reload"], s.Knobs["metrics_read"], s.Knobs["density_8ths"], s.Knobs["max_delay_us"] = nTasks, withReload, withMetrics, density, maxDel
	s.MixSig(fmt.Sprint(plans, withReload, withMetrics, density, maxDel))

	kernel.InstallRaceHooks(s.Seed, density, maxDel) // before any engine goroutine exists
	hp := installHAProxy()
	env, err := newC08Env(s, c18Files(), hp)
	if err != nil {
		s.HarnessErr = "cannot build C18 environment: " + err.Error()
		return
	}
	body, _, _ := c08Payload("change-flow", "/configuration", c18Files())
	// in half of the runs the frames go through the SPOE message handler
	viaHandler := tp.Chance(1, 2)
	s.Knobs["via_spoe_message_handler"] = viaHandler
	handler := routing.Handler(env.mgr)
	var wg sync.WaitGroup
	verdicts := make([][]string, nTasks)
	for i := range plans {
		i := i
		wg.Add(1)
		go func() {
			defer wg.Done()
			for k, u := range plans[i].urls {
				id := fmt.Sprintf("t%d.%d", i, k)
				h := map[string]string{}
				if plans[i].grp != "" {
					h["x-grp"] = plans[i].grp
				}
				v := "error"
				if viaHandler {
					v = spoeRequest(handler, id, paths[u][0], paths[u][1], h)
				} else {
					fa, err := env.mgr.VerifOnRequest(reqMsg(id, "GET", paths[u][0], paths[u][1], h))
					if fa != nil && fa.Request != nil {
						v = verdictOf(fa.Request.Actions, err)
					}
				}
				verdicts[i] = append(verdicts[i], v)
				if v == "pass" {
					time.Sleep(time.Duration(1+k) * 100 * time.Microsecond)
					if u == 3 && k%2 == 1 {
						env.mgr.VerifStream().OnError(id)
					} else if viaHandler {
						pk := kv.NewKV()
						pk.Add("id", id)
						pk.Add("sequence_id", id)
						pk.Add("method", "GET")
						pk.Add("url", paths[u][0]+paths[u][1])
						pk.Add("status", int64(map[bool]int{true: 503, false: 200}[u == 6])) // the retry flow sees failures
						pk.Add("headers", "")
						pk.Add("body", []byte{})
						handler(&request.Request{Messages: &message.Messages{&message.Message{Name: "lunar-on-response", KV: pk}}})
					} else {
						env.mgr.VerifOnResponse(lunarMessages.OnResponse{ID: id, SequenceID: id, Method: "GET", URL: paths[u][0] + paths[u][1], Status: map[bool]int{true: 503, false: 200}[u == 6], Headers: map[string]string{}, RawBody: []byte{}})
					}
				}
			}
		}()
	}
	if withMetrics {
		wg.Add(1)
		go func() {
			defer wg.Done()
			for k := 0; k < 3; k++ {
				st := env.mgr.VerifStream()
				_ = st.GetFlowInvocations()
				_ = st.VerifObserveQuotas()
				_ = st.GetActiveFlows()
				_ = st.GetAvgFlowExecutionTime()
				time.Sleep(150 * time.Microsecond)
			}
		}()
	}
	if withReload {
		wg.Add(1)
		go func() {
			defer wg.Done()
			time.Sleep(50 * time.Microsecond)
			rec := httptest.NewRecorder()
			env.mux.ServeHTTP(rec, httptest.NewRequest(http.MethodPut, "/configuration", bytes.NewReader(body)))
		}()
	}
	wg.Wait()
	// let the GC / queue / unmanage goroutines run for a while too
	time.Sleep(5 * time.Second)
	s.Nontrivial()
	s.Rule("R1")
	s.FaultFired("overlapping_transactions")
	if withReload {
		s.FaultFired("reload_during_transactions")
	}
	if withMetrics {
		s.FaultFired("metrics_read_during_transactions")
	}
	s.Knobs["verdicts"] = fmt.Sprint(verdicts)
}

// runC18A: policy mode — transaction lookups, policy swaps and the vacuum
// goroutines of the accessor.
func runC18A(s *kernel.Sim) {
	tp := s.Tape
	nTasks := tp.Range(2, 4)
	density := tp.Range(1, 8)
	maxDel := []int{3, 50, 2000}[tp.Choose(3)]
	nApply := tp.Range(1, 3)
	s.Knobs["tasks"], s.Knobs["applies"], s.Knobs["density_8ths"], s.Knobs["max_delay_us"] = nTasks, nApply, density, maxDel
	s.MixSig(fmt.Sprint(nTasks, nApply, density, maxDel))
	dir := runTmp(s)
	polPath := filepath.Join(dir, "policies.yaml")
	os.Setenv("LUNAR_PROXY_POLICIES_CONFIG", polPath)
	os.Setenv("LUNAR_PROXY_CONFIG_DIR", dir)
	kernel.InstallRaceHooks(s.Seed, density, maxDel) // before any engine goroutine exists
	installHAProxy()
	os.WriteFile(polPath, []byte(c11Policies(0)), 0o644)
	res, err := config.BuildInitialFromFile()
	if err != nil {
		s.HarnessErr = "BuildInitialFromFile: " + err.Error()
		return
	}
	acc := res.Accessor
	var wg sync.WaitGroup
	for i := 0; i < nTasks; i++ {
		i := i
		wg.Add(1)
		go func() {
			defer wg.Done()
			for k := 0; k < 4; k++ {
				id := config.TxnID(fmt.Sprintf("t%d.%d", i, k))
				_ = acc.GetTxnPoliciesData(id)
				time.Sleep(time.Duration(1+k*7) * time.Second)
				_ = acc.GetTxnPoliciesData(id)
			}
		}()
	}
	wg.Add(1)
	go func() {
		defer wg.Done()
		for k := 1; k <= nApply; k++ {
			time.Sleep(time.Duration(k) * 3 * time.Second)
			os.WriteFile(polPath, []byte(c11Policies(k)), 0o644)
			_ = acc.ReloadFromFile()
		}
		_ = acc.RevertToDiagnosisFree()
	}()
	wg.Wait()
	time.Sleep(40 * time.Second) // vacuum ticks after the last activity
	s.Nontrivial()
	s.Rule("R1")
	s.FaultFired("policy_swap_during_transactions")
}

// runC18S: N <= 3 transactions overlap (all start before any ends), interleaved
// at instrumented lock sites under the token scheduler with the clock frozen;
// the vector of their outcomes must equal the vector of some serial order run
// on a fresh engine with the same configuration.
func runC18S(s *kernel.Sim) {
	tp := s.Tape
	n := tp.Range(2, 3)
	siteOn, density := lockSites(tp)
	stmtPoints := tp.Chance(1, 2) // statement-level points inside processor Execute methods, in half of the runs
	paths := [][2]string{{"a.com", "/p1"}, {"a.com", "/l"}, {"b.io", "/c"}, {"a.com", "/zz"}, {"a.com", "/p2"}}
	type txn struct {
		u    int
		grp  string
		skip bool // carries x-skip=1: the probe flows' filter lets it pass
		out  string
	}
	txns := make([]*txn, n)
	for i := range txns {
		txns[i] = &txn{u: tp.Weighted([]int{3, 4, 4, 1, 3}), grp: []string{"", "a"}[tp.Choose(2)], skip: tp.Chance(1, 3)}
	}
	prefix := tp.Range(0, 3) // sequential requests on the fixed-window quota before the burst
	s.Knobs["n"], s.Knobs["lock_sites"], s.Knobs["prefix"], s.Knobs["statement_points"] = n, density, prefix, stmtPoints
	var plan []string
	for _, t := range txns {
		plan = append(plan, fmt.Sprintf("%s#%s#skip=%v", paths[t.u][1], t.grp, t.skip))
	}
	s.Knobs["txns"] = plan
	s.MixSig(fmt.Sprint(plan, prefix))
	s.LogEngineEvents = false
	files := c18Files()
	delete(files, "gateway_config.yaml")
	delete(files, "metrics.yaml")
	// in half of the runs the transactions enter through the SPOE message handler
	// (routing.Handler, one call per frame, as the HAProxy agent makes them from one
	// goroutine per frame): what comes back is what the handler put into the frame
	viaHandler := tp.Chance(1, 2)
	s.Knobs["via_spoe_message_handler"] = viaHandler
	handlers := map[*engineEnv]routing.MessageHandler{}
	run := func(e *engineEnv, t *txn, id string) string {
		h := map[string]string{}
		if t.grp != "" {
			h["x-grp"] = t.grp
		}
		if t.skip {
			h["x-skip"] = "1"
		}
		if viaHandler {
			return spoeRequest(handlers[e], id, paths[t.u][0], paths[t.u][1], h)
		}
		o := e.doRequest(reqMsg(id, "GET", paths[t.u][0], paths[t.u][1], h))
		switch {
		case o.Err != nil:
			return "error:" + o.Err.Error()
		case o.Early:
			return fmt.Sprint(o.Status)
		}
		return "pass"
	}
	prep := func(e *engineEnv, tag string) {
		for k := 0; k < prefix; k++ {
			run(e, &txn{u: 1, grp: ""}, fmt.Sprintf("%s-pre%d", tag, k))
		}
	}
	mkEngine := func() (*engineEnv, error) {
		if !viaHandler {
			return newEngine(s, files)
		}
		dir := runTmp(s)
		if err := writeTree(dir, files); err != nil {
			return nil, err
		}
		c08setEnv(dir)
		m, _ := os.ReadFile("/repo/proxy/metrics.yaml")
		os.WriteFile(os.Getenv("LUNAR_PROXY_METRICS_CONFIG_DEFAULT"), m, 0o644)
		tmpDirs = append(tmpDirs, os.Getenv("LUNAR_PROXY_METRICS_CONFIG_DEFAULT"), os.Getenv("LUNAR_FLOWS_PATH_PARAM_CONFIG"))
		installHAProxy()
		mgr, err := routing.NewVerifStreamsManager()
		if err != nil {
			return nil, err
		}
		e := &engineEnv{Dir: dir, Stream: mgr.VerifStream(), Files: files}
		handlers[e] = routing.Handler(mgr)
		return e, nil
	}
	// concurrent execution
	env, err := mkEngine()
	if err != nil {
		s.HarnessErr = "engine rejected C18S configuration: " + err.Error()
		return
	}
	prep(env, "c")
	inGroup := true
	s.YieldOn = func(point string, a []string, harness bool) bool {
		return harness && inGroup && (isLockPoint(point) || (stmtPoints && point == "stmt")) && siteOn(a[0])
	}
	// a third of the runs simulate blocking (kernel/simlock.go): the overlapping
	// transactions are parked inside critical sections too, and a transaction that
	// cannot get a lock waits for it as a parked task
	simLocks := tp.Chance(1, 3)
	s.Knobs["simulated_blocking"] = simLocks
	s.SimLocks = simLocks
	for i, t := range txns {
		i, t := i, t
		s.Spawn(fmt.Sprintf("c%d", i), func() { t.out = run(env, t, fmt.Sprintf("c%d", i)) })
	}
	for st := 0; st < 5000; st++ {
		p := s.ParkedTasks()
		if len(p) == 0 {
			break
		}
		s.Resume(p[tp.Choose(len(p))])
	}
	deadlocked := func(what string) bool {
		if !simLocks {
			return false
		}
		s.SettleLocks()
		s.Rule("R4")
		if dead, desc := s.Deadlocked(0); dead {
			s.Violate("R4", "deadlock", "overlapping %s %v: every live task waits for a lock and none of them can be released: %s", what, plan, desc)
			return true
		}
		return false
	}
	if deadlocked("transactions") {
		return
	}
	// the responses of the admitted ones overlap too (their releases, the system end
	// flows); their outcome is not compared, they must all return
	if !viaHandler {
		nResp := 0
		for i, t := range txns {
			if t.out != "pass" {
				continue
			}
			i, t := i, t
			nResp++
			s.Spawn(fmt.Sprintf("r%d", i), func() {
				env.doResponse(fmt.Sprintf("c%d", i), "GET", paths[t.u][0], paths[t.u][1], 200, nil)
			})
		}
		if simLocks && nResp > 0 {
			// and one more request arrives on the concurrency quota meanwhile
			nResp++
			s.Spawn("late", func() {
				run(env, &txn{u: 2}, "late")
			})
		}
		for st := 0; st < 5000 && nResp > 0; st++ {
			p := s.ParkedTasks()
			if len(p) == 0 {
				break
			}
			s.Resume(p[tp.Choose(len(p))])
		}
		if deadlocked("responses") {
			return
		}
	}
	inGroup = false
	s.SimLocks = false
	if s.Failed() {
		return
	}
	var got []string
	for _, t := range txns {
		got = append(got, t.out)
	}
	s.Event("concurrent", strings.Join(got, ","))
	// all serial orders on fresh engines
	perms := permutations(n)
	var serial []string
	match := false
	for _, p := range perms {
		e, err := mkEngine()
		if err != nil {
			s.HarnessErr = "engine rejected C18S configuration: " + err.Error()
			return
		}
		prep(e, "s")
		outs := make([]string, n)
		for _, i := range p {
			outs[i] = run(e, txns[i], fmt.Sprintf("s%d", i))
		}
		v := strings.Join(outs, ",")
		serial = append(serial, fmt.Sprintf("%v=>%s", p, v))
		if v == strings.Join(got, ",") {
			match = true
		}
	}
	s.Rule("R2")
	s.Nontrivial()
	s.FaultFired("overlapping_transactions")
	sort.Strings(serial)
	s.State(strings.Join(got, ","))
	if !match {
		s.Violate("R2", "not-serialisable", "overlapping transactions %v got %v, which no one-at-a-time order produces: %v", plan, got, serial)
	}
	for i, t := range txns {
		s.Rule("R3")
		if strings.HasPrefix(t.out, "error") {
			s.Violate("R3", "error-only-under-concurrency", "transaction %d (%s) returned %s when overlapped with others", i, plan[i], t.out)
		}
	}
}

func permutations(n int) [][]int {
	if n == 1 {
		return [][]int{{0}}
	}
	var out [][]int
	for _, p := range permutations(n - 1) {
		for pos := 0; pos <= len(p); pos++ {
			q := append(append(append([]int{}, p[:pos]...), n-1), p[pos:]...)
			out = append(out, q)
		}
	}
	return out
}

// inertFlow is observable but emits no action: a Filter routing both outcomes to the stream end.
func inertFlow(name, url string) string {
	return flowDef{
		Name: name, URL: url,
		Procs: []procDef{{Key: "i", Type: "Filter", Params: [][2]string{{"header", "x-never=1"}}}},
		Req:   []connDef{{FromStream: "start", ToProc: "i"}, {FromProc: "i", Cond: "hit", ToStream: "end"}, {FromProc: "i", Cond: "miss", ToStream: "end"}},
		Resp:  []connDef{{FromStream: "start", ToStream: "end"}},
	}.YAML()
}

// spoeRequest sends one request frame through the SPOE message handler and reads
// the verdict from the actions the handler put into the frame.
func spoeRequest(handler routing.MessageHandler, id, host, path string, h map[string]string) string {
	block := ""
	for _, k := range sortedKeys(h) {
		block += k + ": " + h[k] + "\r\n"
	}
	rk := kv.NewKV()
	rk.Add("id", id)
	rk.Add("sequence_id", id)
	rk.Add("method", "GET")
	rk.Add("scheme", "https")
	rk.Add("url", host+path)
	rk.Add("path", path)
	rk.Add("query", "")
	rk.Add("headers", block)
	rk.Add("body", []byte{})
	frame := &request.Request{Messages: &message.Messages{&message.Message{Name: "lunar-on-request", KV: rk}}}
	handler(frame)
	early := false
	for _, a := range frame.Actions {
		if a.Name == "return_early_response" {
			early = true
		}
	}
	if !early {
		return "pass"
	}
	for _, a := range frame.Actions {
		if a.Name == "status_code" {
			return fmt.Sprint(a.Value)
		}
	}
	return "early"
}
