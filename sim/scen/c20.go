package scen

import (
	"fmt"
	"time"

	"github.com/rs/zerolog"

	"lunar/engine/failsafe"
	"lunar/toolkit-core/clock"

	"verifsim/kernel"
)

// C20 — the diagnosis fail-safe debouncer reacts only to stable health changes,
// strictly alternating, never during the cool-down. Real StateChangeWatcher
// goroutine on the fake clock with a scripted predicate. DESIGN.md section 4, C20.

func init() { register(&Scenario{ID: "C20", Run: runC20}) }

func runC20(s *kernel.Sim) {
	tp := s.Tape
	consecutive := tp.Range(1, 5)
	stable := time.Duration(tp.Choose(5)) * []time.Duration{0, time.Second, 2500 * time.Millisecond, 5 * time.Second}[tp.Choose(4)]
	interval := []time.Duration{500 * time.Millisecond, time.Second, 1500 * time.Millisecond, 5 * time.Second}[tp.Choose(4)]
	cooldown := []time.Duration{0, time.Second, 7 * time.Second, 20 * time.Second, 60 * time.Second}[tp.Choose(5)]
	length := tp.Range(10, 80)
	mode := tp.Choose(4) // 0 steady+single change, 1 flapping, 2 random persistence, 3 long runs
	script := make([]bool, 0, length)
	cur := !tp.Chance(1, 4) // mostly healthy at first; unhealthy from the very first check in a quarter of the runs
	s.Knobs["first_observation"] = cur
	for len(script) < length {
		var run int
		switch mode {
		case 0:
			run = tp.Range(5, 40)
		case 1:
			run = tp.Range(1, 3)
		case 2:
			run = tp.Range(1, 12)
		default:
			run = tp.Range(8, 30)
		}
		for i := 0; i < run && len(script) < length; i++ {
			script = append(script, cur)
		}
		cur = !cur
	}
	s.Knobs["consecutive"], s.Knobs["stable_period"], s.Knobs["interval"], s.Knobs["cooldown"] = consecutive, stable.String(), interval.String(), cooldown.String()
	s.Knobs["length"], s.Knobs["mode"] = length, mode
	// the real predicate is an HTTP call: it takes time, so the checks drift off the
	// interval grid (a fixed latency per run, applied to every call or to some)
	lat := []time.Duration{0, 0, 37 * time.Millisecond, 100 * time.Millisecond, interval / 3}[tp.Choose(5)]
	latEvery := tp.Chance(1, 2)
	s.Knobs["predicate_latency"] = lat.String()
	s.MixSig(fmt.Sprint(consecutive, stable, interval, cooldown, script))

	// the real predicate has no time-out of its own: in a quarter of the runs one
	// evaluation hangs for several check intervals before it answers
	hangAt, hangFor := -1, time.Duration(0)
	if tp.Chance(1, 4) {
		hangAt = tp.Range(1, length-1)
		hangFor = interval * time.Duration([]int{2, 5, 30}[tp.Choose(3)])
	}
	s.Knobs["predicate_hangs_at"], s.Knobs["predicate_hangs_for"] = hangAt, hangFor.String()
	type obs struct {
		t        time.Duration // start of the check
		ret      time.Duration // the instant the evaluation answered: from then on the state has been observed
		v        bool
		returned bool // the evaluation has answered: only then is it an observation
	}
	var observations []obs
	returned := func() int {
		n := 0
		for _, o := range observations {
			if !o.returned {
				break
			}
			n++
		}
		return n
	}
	type react struct {
		t    time.Duration
		end  time.Duration // the instant the reaction returned
		v    bool
		nObs int // observations made before the reaction
	}
	var reactions []react
	// the real unhealthy reaction rewrites policies and talks to the proxy: in a quarter of
	// the runs it takes time, up to more than the cool-down that follows it
	reactFor := time.Duration(0)
	if tp.Chance(1, 4) {
		reactFor = []time.Duration{interval, 3 * interval, cooldown, cooldown + 2*interval, 9 * time.Second}[tp.Choose(5)]
	}
	s.Knobs["unhealthy_reaction_takes"] = reactFor.String()
	cfg := failsafe.Config{
		ObtainPredicate: func() bool {
			i := len(observations)
			v := script[len(script)-1]
			if i < len(script) {
				v = script[i]
			}
			observations = append(observations, obs{t: s.Now(), v: v})
			s.Event("observe", fmt.Sprint(v))
			if lat > 0 && (latEvery || i%3 == 0) {
				time.Sleep(lat)
			}
			if i == hangAt {
				s.FaultFired("predicate_evaluation_hangs")
				time.Sleep(hangFor)
			}
			observations[i].returned, observations[i].ret = true, s.Now()
			return v
		},
		OnChangeToTrue: func() {
			reactions = append(reactions, react{s.Now(), s.Now(), true, returned()})
			s.Event("reaction", "healthy-again")
		},
		OnChangeToFalse: func() {
			reactions = append(reactions, react{s.Now(), s.Now(), false, returned()})
			s.Event("reaction", "unhealthy")
			if reactFor > 0 {
				k := len(reactions) - 1
				s.FaultFired("slow_unhealthy_reaction")
				time.Sleep(reactFor)
				reactions[k].end = s.Now()
			}
		},
		MinTimeBetweenCalls: interval, ConsecutiveN: consecutive, MinStablePeriod: stable, CooldownPeriod: cooldown,
	}
	w := failsafe.NewStateChangeWatcher("verif", cfg, clock.NewRealClock(), zerolog.Nop())
	w.RunInBackground()
	for i := 0; len(observations) < length && i < 100000; i++ {
		s.Sleep(interval)
	}

	// ---- trace oracle ----
	expect := false // first reaction must be "unhealthy"
	var lastUnhealthy time.Duration = -1
	for _, r := range reactions {
		s.Rule("R1")
		if r.v != expect {
			s.Violate("R1", "reactions-not-alternating", "reaction %v at %v, expected %v (reactions alternate, starting with unhealthy)", name20(r.v), r.t, name20(expect))
		}
		expect = !r.v
		s.Rule("R2")
		need := consecutive
		if need < 1 {
			need = 1
		}
		if r.nObs < need {
			s.Violate("R2", "reaction-before-enough-observations", "reaction %v at %v after only %d observations, consecutive=%d", name20(r.v), r.t, r.nObs, consecutive)
			continue
		}
		// the run of equal observations that ends at the reaction
		runStart := r.nObs - 1
		for runStart > 0 && observations[runStart-1].v == r.v {
			runStart--
		}
		runLen := r.nObs - runStart
		if observations[r.nObs-1].v != r.v || runLen < need {
			s.Violate("R2", "reaction-without-consecutive-confirmations", "reaction %v at %v but only the last %d observation(s) show that state, consecutive=%d", name20(r.v), r.t, runLen, consecutive)
		}
		if span := r.t - observations[runStart].ret; span < stable {
			s.Violate("R2", "reaction-before-stable-period", "reaction %v at %v: the state has been observed for %v, stable period is %v", name20(r.v), r.t, span, stable)
		}
		s.Rule("R3")
		if lastUnhealthy >= 0 && r.t > lastUnhealthy && r.t < lastUnhealthy+cooldown {
			s.Violate("R3", "reaction-during-cooldown", "reaction %v at %v, %v after the unhealthy reaction had finished; cool-down is %v", name20(r.v), r.t, r.t-lastUnhealthy, cooldown)
		}
		if !r.v {
			lastUnhealthy = r.end // the cool-down follows the reaction
		}
	}
	if len(reactions) > 0 {
		s.Nontrivial()
	}
	s.Rule("R4")
	s.State(fmt.Sprintf("r%d", len(reactions)))
}

func name20(v bool) string {
	if v {
		return "healthy-again"
	}
	return "unhealthy"
}
