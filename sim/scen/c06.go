package scen

import (
	"context"
	"fmt"
	"sort"
	"strconv"
	"strings"
	"time"

	contextmanager "lunar/toolkit-core/context-manager"

	"verifsim/kernel"
)

// C06 — flows-mode queue: one verdict within TTL, priority order, bounded
// queue, clean shutdown. Real streams engine with a Queue processor on a
// fixed-window quota; the 100 ms processing loop, the TTL watcher and the
// removal goroutines are the engine's own. DESIGN.md section 4, C06.

func init() { register(&Scenario{ID: "C06", Run: runC06}) }

type c06req struct {
	id        string
	prio      int // 1..3, 999 = no/unknown group, 0 = prioritisation off
	arrive    time.Duration
	arriveSeq uint64
	enq       bool
	enqSeq    uint64
	enqT      time.Duration // engine timestamp of the first push onto the heap
	pushed    bool
	pushSeq   uint64 // first push onto the heap
	deqSeq    uint64 // last time the processing loop took it off the heap
	inHeap    bool
	overtook  string        // better-ranked requests that were in the heap when it was last taken off
	skipSeq   uint64        // the loop took it off the heap and dropped it (verdict already claimed)
	incT      time.Duration // instant of the quota increment that admitted it
	incSeq    uint64
	incOK     bool
	refused   bool
	granted   bool
	grantSeq  uint64
	grantT    time.Duration
	expired   bool
	expSeq    uint64
	done      bool
	allowed   bool
	end       time.Duration
	task      *kernel.Task
}

func runC06(s *kernel.Sim) {
	tp := s.Tape
	// profile 0-3: only the harness tasks are scheduled at lock sites; 4-5: the
	// engine's own goroutines (processing loop, TTL watcher, removal) too, so that
	// e.g. a TTL can elapse in the middle of one quota check of the loop; 5 also
	// picks settings in which requests outlive their TTL in a closed quota window
	// 6: a scripted opening - the quota of the window is spent, one request waits, the
	// loop takes it off the queue and is held before it asks the quota, a second
	// request of the same priority arrives and enters the queue, the loop goes on
	// (refused: the first one is put back); from there on as in profile 4
	// 7: another scripted opening - the quota of the window is spent, a request of the
	// best priority waits at the head of the queue with two more behind it, and its TTL
	// runs out less than one tick of the loop before the next window opens
	profile := tp.Choose(8)
	bgYield := profile >= 4
	qMax := int64(tp.Range(1, 2))
	qWin := tp.Range(1, 5)
	qSize := int64(tp.Range(1, 4))
	ttlS := tp.Range(1, 5)
	if profile == 5 {
		qMax, ttlS = 1, tp.Range(1, 2)
		qWin = ttlS + tp.Range(2, 3)
	}
	if profile == 6 {
		qMax, qWin, qSize = 1, tp.Range(2, 3), int64(tp.Range(3, 4))
		ttlS = qWin + tp.Range(1, 3)
	}
	usePrio := tp.Chance(2, 3)
	c06PrioBase = 1
	if usePrio && tp.Chance(1, 3) {
		c06PrioBase = 0 // the groups are numbered from 0, the highest priority there is
	}
	nArr := tp.Range(2, 10)
	if profile == 6 && nArr < 4 {
		nArr = 4
	}
	if profile == 7 {
		qMax, qWin, qSize = 1, tp.Range(2, 4), int64(tp.Range(3, 4))
		ttlS = tp.Range(1, qWin-1)
		if nArr < 5 {
			nArr = 5
		}
	}
	cancelAt := -1
	if tp.Chance(1, 4) {
		cancelAt = tp.Range(3, 40)
	}
	// a third of the runs with schedulable engine goroutines shut down at a placed
	// instant instead: the first step after placeAfter at which a request waits
	shutdownPlaced, placeAfter := false, 0
	if bgYield && tp.Chance(1, 3) {
		shutdownPlaced, placeAfter, cancelAt = true, tp.Range(2, 20), -1
	}
	wArr, wRes, wClk := 1+tp.Choose(4), tp.Choose(4), 1+tp.Choose(4)
	siteOn, density := lockSites(tp)
	TTL := time.Duration(ttlS) * time.Second
	W := time.Duration(qWin) * time.Second
	const tick = 100 * time.Millisecond
	const slack = 300 * time.Millisecond
	s.Knobs["quota_max"], s.Knobs["quota_window_s"], s.Knobs["queue_size"], s.Knobs["ttl_s"] = qMax, qWin, qSize, ttlS
	s.Knobs["first_priority_number"] = c06PrioBase
	s.Knobs["prio"], s.Knobs["arrivals"], s.Knobs["cancel_at_step"], s.Knobs["lock_sites"] = usePrio, nArr, cancelAt, density

	ctx, cancel := context.WithCancel(context.Background())
	contextmanager.Get().WithContext(ctx)

	files := c06Files(qMax, int64(qWin), qSize, ttlS, usePrio)
	env, err := newEngine(s, files)
	if err != nil {
		s.HarnessErr = "engine rejected generated C06 configuration: " + err.Error()
		return
	}
	// in a third of the runs the engine's own background goroutines (processing
	// loop, TTL watcher, removal goroutines) are schedulable at lock sites too, so
	// that e.g. a TTL can elapse in the middle of one quota check of the loop
	settling := false
	advancing := false // inside a multi-tick clock jump: engine goroutines run freely
	forceBG := false   // engine goroutines stop at every lock site (shutdown placement)
	s.Knobs["background_goroutines_schedulable"], s.Knobs["shutdown_placed_on_ttl_claim"] = bgYield, shutdownPlaced
	s.YieldOn = func(point string, a []string, harness bool) bool {
		if settling || !isLockPoint(point) || (advancing && !harness) {
			return false
		}
		if forceBG && !harness {
			return true
		}
		return (harness || bgYield) && siteOn(a[0])
	}

	reqs := map[string]*c06req{}
	var order []*c06req
	cancelled := false
	var cancelT time.Duration
	drainSeq := uint64(0)
	nExpiredEv := 0
	var placedHeld *c06req // the request the loop held when an arrival was placed
	s.OnEvent = func(kind string, a []string) {
		if kind == "queue.drain" {
			drainSeq = s.Seq()
		}
		if kind == "fw.inc" && len(a) >= 3 {
			if r := reqs[a[1]]; r != nil {
				r.incOK = a[2] == "increased"
				r.incT, r.incSeq = s.Now(), s.Seq()
			}
			return
		}
		if kind == "mq.pop" || kind == "mq.remove" {
			if r := reqs[a[0]]; r != nil {
				r.inHeap = false
				if kind == "mq.pop" {
					r.deqSeq, r.incOK, r.overtook = s.Seq(), false, ""
					for _, o := range order {
						if o != r && o.inHeap && (o.prio < r.prio || (o.prio == r.prio && o.enqT < r.enqT)) { // equal instants = simultaneous arrivals, any order
							r.overtook += fmt.Sprintf(" %s(prio %d, pushed at %v)", o.id, o.prio, o.enqT)
						}
					}
				}
			}
			return
		}
		if kind == "mq.push" && len(a) == 2 {
			if r := reqs[a[0]]; r != nil {
				r.inHeap = true
			}
			if r := reqs[a[0]]; r != nil && !r.pushed {
				// first push = the instant the request entered the queue
				r.pushed = true
				r.pushSeq = s.Seq()
				ns, _ := strconv.ParseInt(a[1], 10, 64)
				r.enqT = time.Duration(ns - s.Start.UnixNano())
			}
			return
		}
		if len(a) == 0 {
			return
		}
		r := reqs[a[0]]
		if r == nil {
			return
		}
		switch kind {
		case "queue.skipped":
			r.skipSeq = s.Seq()
			if r == placedHeld {
				s.Probe("held_request_put_back_after_a_placed_arrival")
				placedHeld = nil
			}
		case "queue.enqueued":
			r.enq, r.enqSeq = true, s.Seq()
		case "queue.refused":
			r.refused = true
		case "queue.granted":
			if r.granted || r.expired {
				s.Violate("R1", "double-verdict", "%s got a second verdict (granted) after granted=%v expired=%v", r.id, r.granted, r.expired)
			}
			r.granted, r.grantSeq, r.grantT = true, s.Seq(), s.Now()
			// allowed only when the attached quota admitted it: the loop's own quota
			// increment for this request, after it last took it off the heap
			s.Rule("R2")
			if !(r.incOK && r.incSeq > r.deqSeq) {
				s.Violate("R2", "granted-without-quota-admission", "%s granted although the quota did not count an admission for it after its last dequeue", r.id)
			}
			// order, judged at the decision point: when the loop took r off the heap
			// for the attempt that admits it, no better-ranked request was in the heap
			s.Rule("R3")
			if r.overtook != "" {
				sig := "order:priority"
				if strings.Contains(r.overtook, fmt.Sprintf("(prio %d,", r.prio)) {
					sig = "order:fifo-within-priority"
				}
				s.Violate("R3", sig, "%s (prio %d, pushed at %v) was taken off the queue and admitted while better-ranked requests were waiting in it:%s", r.id, r.prio, r.enqT, r.overtook)
			}
		case "queue.expired":
			if r.granted || r.expired {
				s.Violate("R1", "double-verdict", "%s got a second verdict (expired) after granted=%v expired=%v", r.id, r.granted, r.expired)
			}
			r.expired, r.expSeq = true, s.Seq()
			nExpiredEv++
		}
	}
	prios := []string{"p1", "p2", "p3", ""}
	var like *c06req   // when set, the next arrival has the priority of this request
	forceBest := false // when set, the next arrival is of the best priority group
	startArrival := func() {
		i := len(order)
		r := &c06req{id: fmt.Sprintf("r%d", i)}
		h := map[string]string{}
		if usePrio && like != nil {
			r.prio = like.prio
			if like.prio != 999 {
				h["x-prio"] = prios[like.prio-c06PrioBase]
			}
		} else if usePrio {
			g := tp.Choose(len(prios))
			if forceBest {
				g = 0
			}
			if prios[g] != "" {
				h["x-prio"] = prios[g]
				r.prio = g + c06PrioBase
			} else {
				r.prio = 999
			}
		}
		reqs[r.id] = r
		order = append(order, r)
		r.task = s.Spawn(r.id, func() {
			r.arrive, r.arriveSeq = s.Now(), s.Seq()
			s.Event("arrive", r.id, fmt.Sprint(r.prio))
			out := env.doRequest(reqMsg(r.id, "GET", "a.com", "/q", h))
			r.done, r.end, r.allowed = true, s.Now(), !out.Early && out.Err == nil
			if out.Err != nil {
				s.Violate("R1", "execute-error", "ExecuteFlow(%s) returned an error: %v", r.id, out.Err)
			}
			s.Event("return", r.id, fmt.Sprint(r.allowed))
		})
		s.Resume(r.task)
	}
	waiting := func() []*c06req {
		var w []*c06req
		for _, r := range order {
			if r.enq && !r.granted && !r.expired && !r.done {
				w = append(w, r)
			}
		}
		return w
	}
	quiescentChecks := func() {
		s.Rule("R4")
		if n := int64(len(waiting())); n > qSize {
			s.Violate("R4", "waiters>queue_size", "%d requests wait in the queue, queue_size=%d", n, qSize)
		}
		s.State(fmt.Sprintf("w%d/p%d/c%v", len(waiting()), len(s.ParkedTasks()), cancelled))
	}

	// intervals during which a goroutine of the engine itself (processing loop,
	// TTL watcher, removal) stayed parked while the clock advanced: the "slow
	// node" fault. Deadlines are not judged across such an interval.
	type span struct{ from, to time.Duration }
	var bgStalls []span
	// deadline(t): the engine must have acted on something due at t once it has had
	// `slack` of time in which neither the processing loop nor the TTL watcher was
	// stalled. Stall intervals that begin before that are waited out (chained).
	deadline := func(t time.Duration) time.Duration {
		iv := append([]span(nil), bgStalls...)
		sort.Slice(iv, func(i, j int) bool { return iv[i].from < iv[j].from })
		for changed := true; changed; {
			changed = false
			for _, b := range iv {
				if b.from <= t+slack && b.to > t {
					t, changed = b.to, true
				}
			}
		}
		return t + slack
	}
	// only the goroutines that hand out verdicts count: the processing loop and the
	// TTL watcher (a stalled removal goroutine delays nobody's verdict)
	decides := func(t *kernel.Task) bool {
		return !t.Harness && (strings.HasSuffix(t.Origin, ".process") || strings.HasSuffix(t.Origin, ".manageTTLs"))
	}
	maxSteps := 70
	if bgYield {
		maxSteps = 160
	}
	if profile == 6 {
		runTask := func(r *c06req, until func() bool) {
			for i := 0; i < 80 && !until() && r.task != nil && !r.task.Done(); i++ {
				s.Resume(r.task)
			}
		}
		freeBG := func() {
			for i := 0; i < 400; i++ {
				var bg *kernel.Task
				for _, t := range s.ParkedTasks() {
					if !t.Harness {
						bg = t
					}
				}
				if bg == nil {
					return
				}
				s.Resume(bg)
			}
		}
		// the window's only slot goes to a first request
		startArrival()
		a := order[0]
		runTask(a, func() bool { return a.pushed })
		for k := 0; k < 3 && !a.granted; k++ {
			advancing = true
			s.Sleep(tick)
			advancing = false
			freeBG()
		}
		runTask(a, func() bool { return a.done })
		// a second one has to wait
		s.Sleep(time.Microsecond)
		startArrival()
		x := order[1]
		runTask(x, func() bool { return x.pushed })
		// the loop takes it off the queue on its next tick and is held there
		forceBG = true
		now := s.Now()
		s.SleepUntil((now/tick + 1) * tick)
		for i := 0; i < 60 && x.inHeap; i++ {
			var loop *kernel.Task
			for _, t := range s.ParkedTasks() {
				if !t.Harness && strings.HasSuffix(t.Origin, ".process") {
					loop = t
				}
			}
			if loop == nil {
				break
			}
			s.Resume(loop)
		}
		if x.pushed && !x.inHeap && !x.granted && !x.expired {
			// a third request of the same priority arrives and enters the queue
			like = x
			s.Sleep(time.Microsecond)
			startArrival()
			like = nil
			y := order[2]
			runTask(y, func() bool { return y.pushed })
			s.Probe("arrival_while_loop_holds_the_only_waiting_request")
		}
		forceBG = false
		freeBG()
	}
	if profile == 7 {
		runTask := func(r *c06req, until func() bool) {
			for i := 0; i < 80 && !until() && r.task != nil && !r.task.Done(); i++ {
				s.Resume(r.task)
			}
		}
		freeBG := func() {
			for i := 0; i < 400; i++ {
				var bg *kernel.Task
				for _, t := range s.ParkedTasks() {
					if !t.Harness {
						bg = t
					}
				}
				if bg == nil {
					return
				}
				s.Resume(bg)
			}
		}
		jump := func(to time.Duration) {
			if to > s.Now() {
				advancing = true
				s.SleepUntil(to)
				advancing = false
			}
			freeBG()
		}
		// the window's only slot goes to a first request
		startArrival()
		z := order[0]
		runTask(z, func() bool { return z.pushed })
		for k := 0; k < 3 && !z.granted; k++ {
			jump(s.Now() + tick)
		}
		runTask(z, func() bool { return z.done })
		// the head of the queue arrives so that its TTL ends shortly before the window does
		open := (s.Now()/W + 1) * W
		lead := time.Duration(3+tp.Choose(95)) * time.Millisecond
		if at := open - TTL - lead; at > s.Now() {
			jump(at)
			forceBest = true
			startArrival()
			forceBest = false
			a := order[1]
			runTask(a, func() bool { return a.pushed })
			// the two behind it arrive late enough to live to see the window open
			jump(s.Now() + lead + time.Duration(1+tp.Choose(300))*time.Millisecond)
			for i := 2; i < 4; i++ {
				s.Sleep(time.Microsecond)
				startArrival()
				x := order[i]
				runTask(x, func() bool { return x.pushed })
			}
			freeBG()
			if a.pushed && !a.granted {
				// its TTL runs out, it returns, and its removal from the queue has run
				jump(a.enqT + TTL + 2*time.Millisecond)
				runTask(a, func() bool { return a.done })
				freeBG()
				if a.expired && s.Now() < open {
					s.Probe("head_of_queue_expired_within_a_tick_of_the_window_opening")
				}
			}
		}
	}
	for step := 0; step < maxSteps && !s.Failed(); step++ {
		placeNow := false
		if shutdownPlaced && !cancelled && step >= placeAfter {
			for _, r := range waiting() {
				placeNow = placeNow || r.pushed
			}
		}
		if (step == cancelAt || placeNow) && !cancelled {
			// shutdown placed on purpose where the TTL watcher has claimed an expired
			// request and has not yet released its waiter: the loop's drain then meets a
			// request that is in somebody else's hands
			placed := false
			if placeNow {
				forceBG = true
				var e time.Duration
				for _, r := range waiting() {
					if r.pushed && (e == 0 || r.enqT+TTL < e) {
						e = r.enqT + TTL
					}
				}
				if e > 0 {
					placed = true
					now := s.Now()
					if target := e + 2*time.Millisecond; target > now {
						for _, t := range s.ParkedTasks() {
							if decides(t) {
								bgStalls = append(bgStalls, span{now, target})
								s.FaultFired("engine_goroutine_stalled_at_lock_site")
								break
							}
						}
						s.SleepUntil(target)
						for _, t := range s.ParkedTasks() {
							if decides(t) && t.ParkedAt < s.Now() {
								bgStalls = append(bgStalls, span{t.ParkedAt, s.Now()})
							}
						}
					}
					n0 := nExpiredEv
					for i := 0; i < 40 && nExpiredEv == n0; i++ {
						var w *kernel.Task
						for _, t := range s.ParkedTasks() {
							if !t.Harness && strings.HasSuffix(t.Origin, ".manageTTLs") {
								w = t
							}
						}
						if w == nil {
							break
						}
						s.Resume(w)
					}
					if nExpiredEv > n0 {
						for _, t := range s.ParkedTasks() {
							if !t.Harness && strings.HasSuffix(t.Origin, ".manageTTLs") {
								s.Probe("shutdown_while_ttl_watcher_holds_a_claim")
							}
						}
					}
				}
			}
			cancel()
			if placed {
				cancelled, cancelT = true, s.Now()
				s.FaultFired("context_cancel")
				s.Event("cancel")
				s.Sleep(time.Microsecond) // the loop sees the cancelled context and runs to its first lock site
				for i := 0; i < 60; i++ {
					var loop *kernel.Task
					for _, t := range s.ParkedTasks() {
						if !t.Harness && strings.HasSuffix(t.Origin, ".process") {
							loop = t
						}
					}
					if loop == nil {
						break
					}
					s.Resume(loop)
				}
				forceBG = false
				continue
			}
			forceBG = false
			cancelled, cancelT = true, s.Now()
			s.FaultFired("context_cancel")
			s.Event("cancel")
			continue
		}
		parked := s.ParkedTasks()
		w := []int{0, 0, wClk}
		if len(order) < nArr && !cancelled {
			w[0] = wArr
		}
		if len(parked) > 0 {
			w[1] = wRes
		}
		if (len(order) >= nArr || cancelled) && len(waiting()) == 0 && len(parked) == 0 {
			break
		}
		switch tp.Weighted(w) {
		case 0:
			s.Sleep(time.Microsecond)
			startArrival()
		case 1:
			t := parked[tp.Choose(len(parked))]
			if t.Stalled {
				s.FaultFired("stall_at_lock_site")
			}
			s.Resume(t)
		case 2:
			now := s.Now()
			nt := (now/tick + 1) * tick
			targets := []time.Duration{now + time.Microsecond, nt, nt - 1, nt + 1, nt + time.Duration(tp.Choose(10))*tick, (now/W+1)*W + time.Duration(tp.Choose(3))*tick}
			for _, r := range waiting() {
				e := r.arrive + TTL
				if e > now {
					targets = append(targets, e, e-1, e+1, e+2)
				}
			}
			// a request the loop has taken off the heap and not yet put back or admitted
			// is in the loop's hands; its TTL elapsing right then is the rare arbitration
			// between the loop and the TTL watcher, so those instants are preferred
			var held []time.Duration
			for _, r := range waiting() {
				if r.pushed && !r.inHeap && r.arrive+TTL > now {
					held = append(held, r.enqT+TTL+2*time.Millisecond, r.enqT+TTL+150*time.Millisecond)
				}
			}
			race := len(held) > 0 && tp.Chance(2, 3)
			if race {
				targets = held
			}
			target := targets[tp.Choose(len(targets))]
			// Stalling an engine goroutine across a clock jump is a fault, not the rule:
			// mostly the engine's goroutines first run on to their timers (in an order
			// the tape picks) and the jump is made tick by tick, the goroutines woken on
			// the way running on at once, so that the deadlines stay sharp.
			drainBG := func(choose bool) {
				for i := 0; i < 400; i++ {
					var bg []*kernel.Task
					for _, t := range s.ParkedTasks() {
						if !t.Harness {
							bg = append(bg, t)
						}
					}
					if len(bg) == 0 {
						break
					}
					k := 0
					if choose {
						k = tp.Choose(len(bg))
					}
					s.Resume(bg[k])
				}
			}
			if bgYield && !race && !tp.Chance(1, 5) {
				drainBG(true)
				// all but the last tick of the jump pass with the engine's goroutines
				// running freely, as they do when they are not scheduled at all
				if s.Now()+tick < target {
					advancing = true
					s.SleepUntil(target - tick)
					advancing = false
				}
				parked = s.ParkedTasks()
				now = s.Now()
			}
			for _, r := range waiting() {
				if r.pushed && !r.inHeap && r.enqT+TTL > now && r.enqT+TTL < target {
					s.Probe("ttl_elapsed_while_loop_holds_request")
				}
			}
			for _, t := range parked {
				if decides(t) && target > now {
					bgStalls = append(bgStalls, span{now, target})
					s.FaultFired("engine_goroutine_stalled_at_lock_site")
					break
				}
			}
			placeHold := bgYield && tp.Chance(1, 2)
			if placeHold {
				forceBG = true // the engine's goroutines stop at every lock site from here on (placement below)
			}
			s.SleepUntil(target)
			// an engine goroutine woken by a timer inside the jump and parked at a
			// lock site stayed there for the rest of it
			for _, t := range s.ParkedTasks() {
				if decides(t) && t.ParkedAt < s.Now() {
					bgStalls = append(bgStalls, span{t.ParkedAt, s.Now()})
					s.FaultFired("engine_goroutine_stalled_at_lock_site")
				}
			}
			// place the rare state on purpose: let the processing loop run on, lock
			// site by lock site, until it has a waiting request in its hands, and leave
			// it there (the next clock step then prefers that request's expiry)
			if placeHold {
				for i := 0; i < 60; i++ {
					inHands := false
					for _, r := range waiting() {
						inHands = inHands || (r.pushed && !r.inHeap)
					}
					var loop *kernel.Task
					for _, t := range s.ParkedTasks() {
						if !t.Harness && strings.HasSuffix(t.Origin, ".process") {
							loop = t
						}
					}
					if inHands || loop == nil {
						break
					}
					s.Resume(loop)
				}
				// and, half of the time, let a request of the same priority arrive and
				// enter the queue while the loop still has that one in its hands
				var held *c06req
				for _, r := range waiting() {
					if r.pushed && !r.inHeap {
						held = r
					}
				}
				if held != nil && len(order) < nArr && !cancelled && tp.Chance(1, 2) {
					like = held
					s.Sleep(time.Microsecond)
					startArrival()
					like = nil
					nr := order[len(order)-1]
					for i := 0; i < 60 && !nr.pushed && nr.task != nil && !nr.task.Done(); i++ {
						s.Resume(nr.task)
					}
					s.Probe("arrival_while_loop_holds_a_request")
					only := true
					for _, r := range waiting() {
						if r != held && r != nr && r.pushed {
							only = false
						}
					}
					if only {
						s.Probe("arrival_while_loop_holds_the_only_waiting_request")
						placedHeld = held
					}
					// then on, tick by tick with the engine's goroutines running freely, until
					// one of the two has its verdict: who is served first?
					if nr.pushed && tp.Chance(2, 3) {
						forceBG = false
						drainBG(false)
						for k := 0; k < 80 && !held.granted && !nr.granted && !held.expired && !nr.expired && !s.Failed(); k++ {
							advancing = true
							s.Sleep(tick)
							advancing = false
							drainBG(false)
						}
					}
				}
				forceBG = false
			}
		}
		quiescentChecks()
	}
	if s.Failed() {
		return
	}
	// settle: faults stop; every task runs; time passes the TTL
	settling = true
	for i := 0; i < 6 && !s.Failed(); i++ {
		s.Settle()
		open := 0
		for _, r := range order {
			if !r.done {
				open++
			}
		}
		if open == 0 {
			break
		}
		s.Sleep(TTL + 2*slack)
	}
	if s.Failed() {
		return
	}
	// let the removal goroutines and a few more ticks run (drain double-signal shows here)
	s.Sleep(5 * tick)

	// ---- oracle ----
	for _, r := range order {
		s.Rule("R1")
		if !r.done && drainSeq != 0 && (!r.enq || r.enqSeq > drainSeq) {
			continue // entered the queue after shutdown had drained it: outside the property
		}
		if !r.done {
			s.Violate("R1", "no-verdict", "%s (arrived %v) never got a verdict, even %v after faults stopped", r.id, r.arrive, TTL+2*slack)
			continue
		}
		if r.allowed != r.granted {
			s.Violate("R1", "verdict-mismatch", "%s returned allowed=%v but the queue granted=%v expired=%v refused=%v", r.id, r.allowed, r.granted, r.expired, r.refused)
		}
		stalled := r.task.StallEnd > 0
		if !stalled && !cancelled && r.end > deadline(r.arrive+TTL) {
			s.Violate("R1", "late-verdict", "%s arrived %v, returned at %v, TTL %v + slack %v exceeded without any imposed stall", r.id, r.arrive, r.end, TTL, slack)
		}
		// the verdict itself (grant) must fall inside the request's own TTL window
		if r.granted && r.enq && !cancelled {
			enqT, gT := r.enqT, r.grantT
			if r.incOK {
				gT = r.incT // the decision instant; the signal may follow later when the loop is slow
			}
			if gT > deadline(enqT+TTL) {
				for _, t := range s.Tasks() {
					if !t.Harness {
						s.Event("debug.task", t.Name, t.Origin, t.Point, fmt.Sprint(t.ParkedAt), fmt.Sprint(t.Parked()))
					}
				}
				s.Event("debug.stalls", fmt.Sprint(bgStalls))
				s.Violate("R1", "late-grant", "%s entered the queue at %v and was granted at %v, later than TTL %v + slack %v", r.id, enqT, gT, TTL, slack)
			}
		}
		if cancelled && !stalled && r.end > cancelT+slack && r.end > deadline(r.arrive+TTL) && r.end > deadline(cancelT) {
			s.Rule("R5")
			s.Violate("R5", "waiter-not-released-on-shutdown", "%s still waited at %v, shutdown was at %v", r.id, r.end, cancelT)
		}
		if r.refused && !r.enq {
			// refused for size: the queue must have been full
			s.Rule("R4")
		}
	}
	// R2: grants per quota window (window anchored at the first grant after the
	// previous window ended; exact or truncated to seconds) never exceed max
	var grants []*c06req
	for _, r := range order {
		if r.granted {
			grants = append(grants, r)
		}
	}
	admitT := func(g *c06req) time.Duration {
		if g.incOK {
			return g.incT
		}
		return g.grantT
	}
	sort.Slice(grants, func(i, j int) bool {
		if a, b := admitT(grants[i]), admitT(grants[j]); a != b {
			return a < b
		}
		return grants[i].grantSeq < grants[j].grantSeq
	})
	if len(grants) > 0 && len(order) > int(qMax) {
		s.Nontrivial()
	}
	s.Rule("R2")
	okAny := false
	detail := ""
	for _, trunc := range []bool{false, true} {
		ok := true
		start, count := time.Duration(-1<<62), int64(0)
		for _, g := range grants {
			t := admitT(g)
			if t-start >= W {
				start, count = t, 0
				if trunc {
					start = t - t%time.Second
				}
			}
			count++
			if count > qMax {
				ok = false
				detail = fmt.Sprintf("%d grants in the quota window starting at %v (max %d per %v), last %s at %v", count, start, qMax, W, g.id, t)
			}
		}
		okAny = okAny || ok
	}
	if !okAny {
		s.Violate("R2", "grants>quota", "%s", detail)
	}
}

// c06PrioBase is the number of the first priority group (0 or 1; 0 is the
// highest priority the processor knows); set by runC06 before c06Files is called.
var c06PrioBase = 1

// c06Files: one Queue-processor flow on a.com/q with a fixed-window quota.
func c06Files(qMax, qWin, qSize int64, ttlS int, usePrio bool) map[string]string {
	params := [][2]string{{"quota_id", "q"}, {"ttl_seconds", fmt.Sprint(ttlS)}, {"queue_size", fmt.Sprint(qSize)}}
	if usePrio {
		params = append(params, [2]string{"priority_group_by_header", "x-prio"},
			[2]string{"priority_groups", fmt.Sprintf("\n          p1: %d\n          p2: %d\n          p3: %d", c06PrioBase, c06PrioBase+1, c06PrioBase+2)})
	}
	return map[string]string{
		"quotas/quota.yaml": fmt.Sprintf("quotas:\n  - id: q\n    filter:\n      url: a.com/q\n    strategy:\n      fixed_window:\n        max: %d\n        interval: %d\n        interval_unit: second\n", qMax, qWin),
		"flows/fq.yaml": flowDef{
			Name: "fq", URL: "a.com/q",
			Procs: []procDef{
				{Key: "queue", Type: "Queue", Params: params},
				{Key: "gen", Type: "GenerateResponse", Params: [][2]string{{"status", "429"}, {"body", "queued-out"}}},
			},
			Req: []connDef{
				{FromStream: "start", ToProc: "queue"},
				{FromProc: "queue", Cond: "allowed", ToStream: "end"},
				{FromProc: "queue", Cond: "blocked", ToProc: "gen"},
			},
			Resp: []connDef{{FromProc: "gen", ToStream: "end"}},
		}.YAML(),
	}
}
