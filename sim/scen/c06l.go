package scen

import (
	"context"
	"fmt"
	"time"

	contextmanager "lunar/toolkit-core/context-manager"

	"verifsim/kernel"
)

// C06L - the Queue processor with simulated blocking. Every goroutine - the
// requests, the processing loop, the TTL watcher, the removal goroutines - takes
// its locks through the simulator (Sim.SimLocks), so tasks are parked inside
// critical sections as well, a goroutine that cannot get a lock is parked as
// "blocked", and a waiting writer shuts out new readers as sync.RWMutex does. The
// run is judged on liveness only: when faults stop and time passes every request
// has its verdict; a state in which every live task waits for a lock is reported
// as a deadlock with the tasks and lock sites involved. DESIGN.md section 4, C06.

func init() { register(&Scenario{ID: "C06L", Run: runC06L}) }

func runC06L(s *kernel.Sim) {
	tp := s.Tape
	qMax := int64(tp.Range(1, 3))
	qWin := int64(tp.Range(1, 3))
	qSize := int64(tp.Range(2, 5))
	ttlS := tp.Range(1, 3)
	nArr := tp.Range(3, 9)
	burst := tp.Chance(1, 2) // arrivals in bursts: several grants in one pass of the loop
	siteOn, density := lockSites(tp)
	s.Knobs["quota_max"], s.Knobs["quota_window_s"], s.Knobs["queue_size"], s.Knobs["ttl_s"] = qMax, qWin, qSize, ttlS
	s.Knobs["arrivals"], s.Knobs["burst"], s.Knobs["lock_sites"] = nArr, burst, density
	s.LogEngineEvents = false
	TTL := time.Duration(ttlS) * time.Second

	ctx, cancel := context.WithCancel(context.Background())
	defer cancel()
	contextmanager.Get().WithContext(ctx)
	env, err := newEngine(s, c06Files(qMax, qWin, qSize, ttlS, false))
	if err != nil {
		s.HarnessErr = "engine rejected generated C06L configuration: " + err.Error()
		return
	}
	s.SimLocks = true
	settling := false
	s.YieldOn = func(point string, a []string, harness bool) bool {
		return !settling && isLockPoint(point) && siteOn(a[0])
	}
	type req struct {
		id   string
		task *kernel.Task
		done bool
		out  string
	}
	var reqs []*req
	var cancelSeq uint64
	arrive := func() {
		r := &req{id: fmt.Sprintf("r%d", len(reqs))}
		reqs = append(reqs, r)
		s.Event("arrive", r.id)
		r.task = s.Spawn(r.id, func() {
			o := env.doRequest(reqMsg(r.id, "GET", "a.com", "/q", nil))
			r.done = true
			r.out = "pass"
			if o.Early {
				r.out = fmt.Sprint(o.Status)
			}
			if o.Err != nil {
				r.out = "error:" + o.Err.Error()
			}
			s.Event("verdict", r.id, r.out)
		})
	}
	cancelAt := -1
	if tp.Chance(1, 3) {
		cancelAt = tp.Range(3, 60)
	}
	s.Knobs["cancel_at_step"] = cancelAt
	for step := 0; step < 600 && !s.Failed(); step++ {
		if step == cancelAt {
			cancel() // shutdown: the loop drains the queue, holding the watch list's read lock
			nArr = len(reqs)
			s.FaultFired("context_cancel")
			s.Event("cancel")
			cancelSeq = s.Seq()
		}
		parked := s.ParkedTasks()
		w := []int{0, 0, 2}
		if len(reqs) < nArr {
			w[0] = 2
		}
		if len(parked) > 0 {
			w[1] = 6
		}
		if len(reqs) >= nArr && len(parked) == 0 {
			break
		}
		switch tp.Weighted(w) {
		case 0:
			k := 1
			if burst {
				k = tp.Range(1, 3)
			}
			for ; k > 0 && len(reqs) < nArr; k-- {
				arrive()
			}
		case 1:
			s.Resume(parked[tp.Choose(len(parked))])
		case 2:
			s.Sleep([]time.Duration{time.Millisecond, 100 * time.Millisecond, 100 * time.Millisecond, time.Second}[tp.Choose(4)])
		}
		s.State(fmt.Sprintf("p%d", len(s.ParkedTasks())))
	}
	if s.Failed() {
		return
	}
	// faults stop: nothing is held at a lock site any more, time passes
	settling = true
	for round := 0; round < 6; round++ {
		s.SettleLocks()
		s.Sleep(TTL + time.Second)
	}
	s.Rule("R5")
	s.Nontrivial()
	s.FaultFired("tasks_parked_inside_critical_sections")
	if dead, desc := s.Deadlocked(TTL + time.Second); dead {
		s.Violate("R5", "deadlock", "every live task waits for a lock and none of them can be released: %s", desc)
		return
	}
	s.SettleLocks()
	s.Rule("R1")
	for _, r := range reqs {
		// after a shutdown only the deadlock rule is judged here: a request that was held
		// on its way into the queue and got there after the drain is outside the property,
		// and which requests those are is judged by scenario C06 on the queue's own events
		if cancelSeq > 0 {
			continue
		}
		if !r.done {
			s.Violate("R1", "no-verdict", "%s has no verdict %v after the last fault (time-to-live %v)", r.id, 6*(TTL+time.Second), TTL)
			break
		}
	}
}
