package scen

import (
	"context"
	"fmt"
	"time"

	"go.opentelemetry.io/otel/metric/noop"

	"lunar/engine/actions"
	"lunar/engine/config"
	lunarMessages "lunar/engine/messages"
	"lunar/engine/services/remedies"
	"lunar/engine/utils/queue"
	sharedConfig "lunar/shared-model/config"
	"lunar/toolkit-core/clock"
	"lunar/toolkit-core/logging"

	"verifsim/kernel"
)

// C10L - the strategy-based queue with simulated blocking. The enqueuing
// requests and the queue's roll-over goroutine take the queue mutex through the
// simulator (Sim.SimLocks): they are parked inside critical sections, wait for
// each other's locks as parked tasks, and a waiting writer shuts out new readers.
// Judged on liveness: once faults stop and time passes every request has returned
// (released or rejected); a state in which every live task waits for a lock is a
// deadlock. DESIGN.md section 4, C10.

func init() { register(&Scenario{ID: "C10L", Run: runC10L}) }

func runC10L(s *kernel.Sim) {
	tp := s.Tape
	quota := int64(tp.Range(1, 2))
	winS := tp.Range(1, 3)
	qsize := int64(tp.Range(1, 4))
	ttlS := tp.Range(1, 4)
	nArr := tp.Range(3, 9)
	s.Knobs["quota"], s.Knobs["window_s"], s.Knobs["queue_size"], s.Knobs["ttl_s"], s.Knobs["arrivals"] = quota, winS, qsize, ttlS, nArr
	s.LogEngineEvents = false
	TTL := time.Duration(ttlS) * time.Second
	W := time.Duration(winS) * time.Second

	cl := clock.NewRealClock()
	lg := logging.ContextLogger{}
	plugin := remedies.NewStrategyBasedQueuePlugin(context.Background(), cl, lg,
		noop.NewMeterProvider().Meter("verif"),
		func(k queue.QueueKey) queue.DelayedPriorityQueueable {
			return queue.NewInMemoryDelayedPriorityQueue(k, cl, lg)
		})
	cfg := &sharedConfig.StrategyBasedQueueConfig{
		AllowedRequestCount: quota, WindowSizeInSeconds: winS, ResponseStatusCode: 429,
		TTLSeconds: float32(ttlS), QueueSize: qsize,
	}
	remedy := config.ScopedRemedy{Remedy: &sharedConfig.Remedy{
		Enabled: true, Name: "q", Config: sharedConfig.RemedyConfig{StrategyBasedQueue: cfg},
	}}
	s.SimLocks = true
	settling := false
	s.YieldOn = func(point string, a []string, harness bool) bool {
		return !settling && isLockPoint(point)
	}
	type req struct {
		id   string
		done bool
	}
	var reqs []*req
	for step := 0; step < 600 && !s.Failed(); step++ {
		parked := s.ParkedTasks()
		w := []int{0, 0, 2}
		if len(reqs) < nArr {
			w[0] = 2
		}
		if len(parked) > 0 {
			w[1] = 6
		}
		if len(reqs) >= nArr && len(parked) == 0 {
			break
		}
		switch tp.Weighted(w) {
		case 0:
			r := &req{id: fmt.Sprintf("r%d", len(reqs))}
			reqs = append(reqs, r)
			s.Event("arrive", r.id)
			s.Spawn(r.id, func() {
				act, err := plugin.OnRequest(lunarMessages.OnRequest{ID: r.id, Headers: map[string]string{}}, remedy)
				_, noop := act.(*actions.NoOpAction)
				r.done = true
				s.Event("return", r.id, fmt.Sprint(noop && err == nil))
			})
		case 1:
			s.Resume(parked[tp.Choose(len(parked))])
		case 2:
			now := s.Now()
			s.SleepUntil([]time.Duration{now + time.Millisecond, (now/W + 1) * W, (now/W+1)*W + time.Millisecond, now + time.Second}[tp.Choose(4)])
		}
		s.State(fmt.Sprintf("p%d", len(s.ParkedTasks())))
	}
	if s.Failed() {
		return
	}
	settling = true
	for round := 0; round < 6; round++ {
		s.SettleLocks()
		s.Sleep(TTL + W)
	}
	s.Rule("R1")
	s.Nontrivial()
	s.FaultFired("tasks_parked_inside_critical_sections")
	if dead, desc := s.Deadlocked(TTL + W); dead {
		s.Violate("R1", "deadlock", "every live task waits for a lock and none of them can be released: %s", desc)
		return
	}
	s.SettleLocks()
	for _, r := range reqs {
		if !r.done {
			s.Violate("R1", "never-returned", "%s has not returned %v after the last fault (time-to-live %v)", r.id, 6*(TTL+W), TTL)
			break
		}
	}
}
