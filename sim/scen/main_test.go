package scen

import (
	"encoding/json"
	"fmt"
	"os"
	"runtime"
	"strconv"
	"strings"
	"syscall"
	"testing"
	"testing/synctest"
	"time"

	"github.com/rs/zerolog"

	"verifsim/kernel"
)

// TestSim is the only entry point of the child process. Environment:
//
//	VERIF_SCEN   scenario id (e.g. C10)
//	VERIF_SEEDS  "start:count" (search mode)
//	VERIF_TAPE   path of a JSON file {"seed":n,"tape":[...]} (replay mode)
//	VERIF_OUT    result file (JSON lines, appended)
//	VERIF_EVENTS "1" = always include the event log
//	VERIF_TMP    directory for per-run temporary trees
func TestSim(t *testing.T) {
	id := os.Getenv("VERIF_SCEN")
	if id == "" {
		t.Skip("VERIF_SCEN not set")
	}
	sc := registry[id]
	if sc == nil {
		fmt.Fprintf(os.Stderr, "unknown scenario %q\n", id)
		syscall.Exit(2)
	}
	out := os.Getenv("VERIF_OUT")
	if out == "" {
		out = "/dev/stdout"
	}
	withEvents := os.Getenv("VERIF_EVENTS") == "1"
	zerolog.SetGlobalLevel(zerolog.Disabled)
	go watchdog()

	type job struct {
		seed uint64
		tape *kernel.Tape
	}
	var jobs []job
	if tp := os.Getenv("VERIF_TAPE"); tp != "" {
		b, err := os.ReadFile(tp)
		if err != nil {
			fmt.Fprintln(os.Stderr, "cannot read tape:", err)
			syscall.Exit(2)
		}
		var rf struct {
			Seed uint64 `json:"seed"`
			Tape []int  `json:"tape"`
		}
		if err := json.Unmarshal(b, &rf); err != nil {
			fmt.Fprintln(os.Stderr, "cannot parse tape:", err)
			syscall.Exit(2)
		}
		jobs = append(jobs, job{rf.Seed, kernel.NewReplayTape(rf.Tape)})
	} else {
		parts := strings.SplitN(os.Getenv("VERIF_SEEDS"), ":", 2)
		start, _ := strconv.ParseUint(parts[0], 10, 64)
		count := uint64(1)
		if len(parts) == 2 {
			count, _ = strconv.ParseUint(parts[1], 10, 64)
		}
		if !sc.Batch && count != 1 {
			fmt.Fprintln(os.Stderr, "scenario is one-run-per-process")
			syscall.Exit(2)
		}
		for i := uint64(0); i < count; i++ {
			jobs = append(jobs, job{start + i, kernel.NewSeedTape(mixSeed(start+i, id))})
		}
	}
	for _, j := range jobs {
		j := j
		synctest.Test(t, func(t *testing.T) {
			s := kernel.NewSim(id, j.seed, j.tape)
			sc.Run(s)
			s.Finish()
			if err := kernel.AppendResult(out, s.Result(withEvents)); err != nil {
				fmt.Fprintln(os.Stderr, "cannot write result:", err)
				syscall.Exit(2)
			}
			if !sc.Batch {
				cleanupTmp()
				syscall.Exit(0)
			}
			s.Detach()
		})
		cleanupTmp()
	}
}

func mixSeed(seed uint64, id string) uint64 {
	h := seed ^ 0xcbf29ce484222325
	for i := 0; i < len(id); i++ {
		h ^= uint64(id[i])
		h *= 1099511628211
	}
	return h
}

// watchdog runs outside the bubble on real time. A run that makes no
// scheduler progress is harness trouble or an engine hang; it is reported as
// exit status 3 with all goroutine stacks, never as a violation by itself.
func watchdog() {
	last := kernel.Progress.Load()
	lastChange := time.Now()
	start := time.Now()
	stall := 60 * time.Second
	if v := os.Getenv("VERIF_WATCHDOG_S"); v != "" {
		if n, err := strconv.Atoi(v); err == nil {
			stall = time.Duration(n) * time.Second
		}
	}
	for {
		time.Sleep(100 * time.Millisecond)
		p := kernel.Progress.Load()
		if p != last {
			last, lastChange = p, time.Now()
		}
		if time.Since(lastChange) > stall || time.Since(start) > 30*time.Minute {
			buf := make([]byte, 1<<20)
			n := runtime.Stack(buf, true)
			fmt.Fprintf(os.Stderr, "WATCHDOG: no scheduler progress for %v\n%s\n", time.Since(lastChange), buf[:n])
			cleanupTmp()
			syscall.Exit(3)
		}
	}
}
