package scen

import (
	"fmt"
	"reflect"
	"strconv"
	"strings"
	"time"

	"lunar/engine/actions"
	lunarMessages "lunar/engine/messages"
	"lunar/engine/services/remedies"
	sharedConfig "lunar/shared-model/config"
	"lunar/toolkit-core/clock"

	"verifsim/kernel"
)

// C12 — stored responses are replayed only for the same key and only while
// fresh. Real CachingPlugin and ResponseBasedThrottlingPlugin over the real
// MemoryCache (sleeper goroutines included). DESIGN.md section 4, C12.

func init() { register(&Scenario{ID: "C12", Batch: true, Run: runC12}) }

type c12stored struct {
	key      string
	status   int
	at       time.Duration
	ttl      time.Duration
	retry    float64 // original Retry-After value (throttling, relative)
	absolute bool
	size     int
	limitMB  float64 // max_cache_size_megabytes in force when it was stored
	seq      uint64  // sequence number of the store
	seen     bool    // replayed at least once: it was stored
}

func runC12(s *kernel.Sim) {
	tp := s.Tape
	throttling := tp.Chance(1, 2)
	ttls := []int{1, 2, 5, 30}
	ttlS := ttls[tp.Choose(len(ttls))]
	sizeRun := !throttling && tp.Chance(1, 3)
	absolute := throttling && tp.Chance(1, 3)
	nOps := tp.Range(6, 40)
	concP := tp.Choose(4)
	siteOn, density := lockSites(tp)
	s.Knobs["plugin"] = map[bool]string{true: "response_based_throttling", false: "caching"}[throttling]
	limitChanges := sizeRun && tp.Chance(1, 2)
	s.Knobs["size_limit_changes"] = limitChanges
	s.Knobs["ttl_s"], s.Knobs["size_run"], s.Knobs["absolute_retry_after"], s.Knobs["ops"], s.Knobs["lock_sites"] = ttlS, sizeRun, absolute, nOps, density

	cl := clock.NewRealClock()
	cache := remedies.NewCachingPlugin(cl)
	thr := remedies.NewResponseBasedThrottlingPlugin(cl)
	cacheCfg := &sharedConfig.CachingConfig{
		RequestPayloadPaths:   []sharedConfig.PayloadPath{{PayloadType: sharedConfig.RequestPathParamPayload, Path: "id"}},
		TTLSeconds:            float32(ttlS),
		MaxRecordSizeBytes:    1 << 20,
		MaxCacheSizeMegabytes: 1,
	}
	// retry_after_type left out of the remedy: whether the engine then remembers the
	// response at all is its choice; if it does replay one, the value is delay-seconds
	// and the replay must carry it reduced like any other
	untyped := throttling && !absolute && tp.Chance(1, 5)
	s.Knobs["retry_after_type_omitted"] = untyped
	raType := sharedConfig.RetryAfterRelativeSeconds
	if untyped {
		raType = sharedConfig.RetryAfterUndefined
	}
	if absolute {
		raType = sharedConfig.RetryAfterAbsoluteEpoch
	}
	thrCfg := &sharedConfig.ResponseBasedThrottlingConfig{RetryAfterHeader: "Retry-After", RetryAfterType: raType, RelevantStatuses: []int{429, 503}}

	inGroup := false
	holdSleepers := false // the cache's expiry goroutines stop at their lock sites (placement below)
	s.YieldOn = func(point string, a []string, harness bool) bool {
		if !harness {
			return holdSleepers && isLockPoint(point)
		}
		return inGroup && isLockPoint(point) && siteOn(a[0])
	}
	forcePad := -1

	stored := map[string]*c12stored{} // unique body -> what was stored
	methods := []string{"GET", "POST"}
	urls := []string{"a.com/x", "a.com/y", "b.io/x", "a.com/X"} // "/X" and "/x" are different resources
	// the record key includes the selected path parameters: one parameter, or two
	// whose values contain the separator characters or are absent on one side
	ids := []string{"1", "2"}
	params := func(id string) map[string]string { return map[string]string{"id": id} }
	if !throttling && tp.Chance(1, 2) {
		cacheCfg.RequestPayloadPaths = []sharedConfig.PayloadPath{
			{PayloadType: sharedConfig.RequestPathParamPayload, Path: "owner"},
			{PayloadType: sharedConfig.RequestPathParamPayload, Path: "repo"},
		}
		ids = []string{"foo|bar.js", "foo.bar|js", "42|", "|42"}
		params = func(id string) map[string]string {
			m := map[string]string{}
			p := strings.SplitN(id, "|", 2)
			if p[0] != "" {
				m["owner"] = p[0]
			}
			if p[1] != "" {
				m["repo"] = p[1]
			}
			return m
		}
		s.Knobs["key_params"] = "owner,repo"
	}
	type key struct{ m, u, id string }
	keyOf := map[string]key{} // key string -> key
	keyStr := func(k key) string {
		if throttling {
			return k.m + " " + k.u
		}
		return k.m + " " + k.u + " id=" + k.id
	}
	pickKey := func() key {
		return key{methods[tp.Choose(2)], urls[tp.Choose(len(urls))], ids[tp.Choose(len(ids))]}
	}
	n := 0
	pads := []string{""}
	if sizeRun { // bodies of different sizes against the 1 MB cache
		pads = []string{strings.Repeat("x", 50*1024), strings.Repeat("x", 300*1024), strings.Repeat("x", 600*1024)}
	}
	// doResponse stores (maybe) a response with a unique body.
	doResponse := func(k key) {
		n++
		pad := pads[tp.Choose(len(pads))]
		if forcePad >= 0 && forcePad < len(pads) {
			pad = pads[forcePad]
		}
		body := fmt.Sprintf("body-%d-%s", n, pad)
		st := &c12stored{key: keyStr(k), at: s.Now(), size: len(body), limitMB: float64(cacheCfg.MaxCacheSizeMegabytes), seq: s.Seq()}
		keyOf[st.key] = k
		hdr := map[string]string{"X-N": fmt.Sprint(n)}
		raName := "Retry-After" // as configured; sometimes in another letter case, as a proxy may hand it over
		if throttling && tp.Chance(1, 4) {
			raName = []string{"retry-after", "RETRY-AFTER"}[tp.Choose(2)]
		}
		if throttling {
			st.status = []int{429, 503, 200, 500}[tp.Choose(4)]
			ra := float64(tp.Range(1, 6))
			if tp.Chance(1, 4) {
				ra += 0.5
			}
			st.retry, st.ttl, st.absolute = ra, time.Duration(ra*float64(time.Second)), absolute
			if absolute {
				if tp.Chance(1, 5) { // a reset instant that is already over, or is this very second
					ra = float64([]int{-2, -30, 0}[tp.Choose(3)])
				}
				epoch := time.Now().Unix() + int64(ra)
				hdr[raName] = strconv.FormatInt(epoch, 10)
				st.retry = float64(epoch)
				// the engine computes the TTL from whole unix seconds
				st.ttl = time.Duration(epoch-time.Now().Unix()) * time.Second
			} else {
				hdr[raName] = strconv.FormatFloat(ra, 'f', -1, 64)
			}
			stored[body] = st
			s.Event("response", st.key, fmt.Sprintf("status=%d retry-after=%s body#%d", st.status, hdr[raName], n))
			_, err := thr.OnResponse(lunarMessages.OnResponse{ID: fmt.Sprintf("t%d", n), Method: k.m, URL: k.u, Status: st.status, Body: body, Headers: hdr}, thrCfg)
			if err != nil && !untyped {
				s.Violate("R1", "plugin-error", "OnResponse error: %v", err)
			}
			hdr["x-added-later"] = "1" // a later remedy of the chain edits the response's headers in place
			return
		}
		st.status, st.ttl = 200, time.Duration(ttlS)*time.Second
		stored[body] = st
		s.Event("response", st.key, fmt.Sprintf("body#%d", n))
		_, err := cache.OnResponse(lunarMessages.OnResponse{ID: fmt.Sprintf("t%d", n), Method: k.m, URL: k.u, Status: 200, Body: body, Headers: hdr}, cacheCfg, params(k.id))
		if err != nil {
			s.Violate("R1", "plugin-error", "OnResponse error: %v", err)
		}
		hdr["x-added-later"] = "1" // a later remedy of the chain edits the response's headers in place
	}
	// half of the runs: replayed responses take the way they take through the dispatcher
	viaDispatcher := tp.Chance(1, 2)
	s.Knobs["replays_fed_back_as_responses"] = viaDispatcher
	// doRequest asks the plugin and judges a replay; returns the size of the hit.
	doRequest := func(k key, probe bool) int {
		n++
		start := s.Now() // the request may be held at a lock site while the clock moves on
		var act actions.ReqLunarAction
		var err error
		if throttling {
			act, err = thr.OnRequest(lunarMessages.OnRequest{ID: fmt.Sprintf("t%d", n), Method: k.m, URL: k.u, Headers: map[string]string{}}, thrCfg)
		} else {
			act, err = cache.OnRequest(lunarMessages.OnRequest{ID: fmt.Sprintf("t%d", n), Method: k.m, URL: k.u, Headers: map[string]string{}}, cacheCfg, params(k.id))
		}
		if err != nil {
			s.Violate("R1", "plugin-error", "OnRequest error: %v", err)
			return 0
		}
		er, ok := act.(*actions.EarlyResponseAction)
		if !ok {
			if !probe {
				s.Event("request", keyStr(k), "miss")
			}
			return 0
		}
		if viaDispatcher {
			// the dispatcher hands every early response to the response side of the
			// remedies, as if the provider had sent it (runner.obtainModifiedEarlyResponse)
			back := lunarMessages.OnResponse{ID: fmt.Sprintf("t%d", n), Method: k.m, URL: k.u, Status: er.Status, Body: er.Body, Headers: er.Headers}
			// the dispatcher marks it as produced by the gateway (since fix a-replay-is-not-a-
			// provider-response; set by name so that the harness also builds on a tree
			// without the field, where the feedback is unmarked as it was then)
			if f := reflect.ValueOf(&back).Elem().FieldByName("FromGateway"); f.IsValid() && f.CanSet() {
				f.SetBool(true)
			}
			var ferr error
			if throttling {
				_, ferr = thr.OnResponse(back, thrCfg)
			} else {
				_, ferr = cache.OnResponse(back, cacheCfg, params(k.id))
			}
			if ferr != nil {
				s.Violate("R1", "plugin-error", "OnResponse error on a replayed response: %v", ferr)
				return 0
			}
			s.Probe("replayed_response_fed_back_to_the_remedy")
		}
		now := s.Now()
		st := stored[er.Body]
		bodyTag := strings.SplitN(er.Body, "-x", 2)[0]
		if !probe {
			s.Event("request", keyStr(k), "hit "+strings.TrimSuffix(bodyTag, "-"))
		}
		s.Nontrivial()
		s.Rule("R1")
		if st != nil {
			st.seen = true
		}
		if st == nil || st.key != keyStr(k) {
			was := "never stored"
			if st != nil {
				was = "stored for " + st.key
			}
			s.Violate("R1", "wrong-key", "request %s answered from memory with a body that was %s", keyStr(k), was)
			return 0
		}
		if throttling && st.status != 429 && st.status != 503 {
			s.Violate("R1", "irrelevant-status-stored", "request %s answered from a stored response with status %d, relevant statuses are 429/503", keyStr(k), st.status)
		}
		// the response remedies run on every early response and may edit its headers in
		// place: what one replay was given afterwards is not part of the next one
		if _, prev := er.Headers["x-added-to-a-replay"]; prev {
			s.Violate("R1", "replay-carries-what-the-provider-never-sent", "request %s: the replayed response carries a header that was added to an earlier replay of the same entry", keyStr(k))
		}
		if er.Headers != nil {
			er.Headers["x-added-to-a-replay"] = "1"
		}
		if _, late := er.Headers["x-added-later"]; late {
			s.Violate("R1", "replay-carries-what-the-provider-never-sent", "request %s: the replayed response carries a header that a later remedy added to the transaction's response after it had been stored", keyStr(k))
		}
		if er.Status != st.status {
			s.Violate("R1", "wrong-status", "replayed status %d, stored %d", er.Status, st.status)
		}
		s.Rule("R2")
		if start > st.at+st.ttl {
			s.Violate("R2", "stale-replay", "request %s at %v answered from a response stored at %v with time-to-live %v (expired %v ago)", keyStr(k), now, st.at, st.ttl, now-st.at-st.ttl)
		}
		if throttling {
			s.Rule("R3")
			raw := ""
			for hk, hv := range er.Headers {
				if strings.EqualFold(hk, "Retry-After") {
					raw = hv
				}
			}
			got, perr := strconv.ParseFloat(raw, 64)
			if perr != nil {
				s.Violate("R3", "retry-after-unparsable", "replayed Retry-After %q", raw)
			} else if st.absolute {
				if got != st.retry {
					s.Violate("R3", "retry-after-absolute-changed", "absolute Retry-After replayed as %v, original %v", got, st.retry)
				}
			} else {
				want := st.retry - (now - st.at).Seconds()
				wantAtStart := st.retry - (start - st.at).Seconds() // read at some instant between start and return
				if got < want-0.001 || got > wantAtStart+0.001 {
					s.Violate("R3", "retry-after-not-reduced-by-elapsed", "request %s at %v: replayed Retry-After %v, original %v stored at %v, expected %v", keyStr(k), now, got, st.retry, st.at, want)
				}
			}
		}
		return st.size
	}
	probeAll := func() {
		s.Rule("R4")
		total := 0
		for _, m := range methods {
			for _, u := range urls {
				for _, id := range ids {
					if throttling && id != ids[0] {
						continue
					}
					total += doRequest(key{m, u, id}, true)
				}
			}
		}
		s.State(fmt.Sprintf("bytes%dk", total/1024/100*100))
		if !throttling && !limitChanges && total > 1<<20 {
			s.Violate("R4", "cache-size-exceeded", "the entries currently replayed sum to %d body bytes, max_cache_size_megabytes is 1", total)
		}
		// with a size limit that changes between stores: an entry that was stored (it
		// has been replayed) fitted, together with the stored entries of other keys
		// that were alive at that instant, into the limit in force at its store
		if limitChanges {
			var seen []*c12stored
			for _, b := range sortedKeys(stored) {
				if stored[b].seen {
					seen = append(seen, stored[b])
				}
			}
			for _, e := range seen {
				sum := e.size
				perKey := map[string]int{} // one key holds one entry at a time: count the smallest candidate
				for _, f := range seen {
					if f.seq < e.seq && f.key != e.key && f.at+f.ttl > e.at {
						if v, ok := perKey[f.key]; !ok || f.size < v {
							perKey[f.key] = f.size
						}
					}
				}
				for _, v := range perKey {
					sum += v
				}
				if float64(sum) > e.limitMB*(1<<20) {
					s.Violate("R4", "stored-beyond-configured-size", "the response for %s (%d bytes) was stored at %v although it and the %d bytes of other entries alive then exceed max_cache_size_megabytes %.2f in force at that store", e.key, e.size, e.at, sum-e.size, e.limitMB)
					break
				}
			}
		}
	}

	for op := 0; op < nOps && !s.Failed(); op++ {
		// size runs: an entry expires, its expiry goroutine has woken and is held before
		// it takes the cache lock, the same key is stored again with the largest body,
		// the goroutine goes on; then the cache is filled
		if sizeRun && !throttling && tp.Chance(1, 5) {
			var victim *c12stored
			for _, b := range sortedKeys(stored) {
				if st := stored[b]; st.at+st.ttl > s.Now() && st.size < 400*1024 {
					victim = st
					break
				}
			}
			if victim != nil {
				if kk, ok := keyOf[victim.key]; ok {
					holdSleepers = true
					s.SleepUntil(victim.at + victim.ttl + 1)
					forcePad = len(pads) - 1
					doResponse(kk)
					holdSleepers = false
					for i := 0; i < 200; i++ {
						var bg *kernel.Task
						for _, t := range s.ParkedTasks() {
							if !t.Harness {
								bg = t
							}
						}
						if bg == nil {
							break
						}
						s.Resume(bg)
					}
					for k := 0; k < 3; k++ {
						forcePad = 1 + tp.Choose(2)
						doResponse(pickKey())
					}
					forcePad = -1
					s.FaultFired("store_while_the_expired_entrys_sleeper_is_held")
					probeAll()
					continue
				}
			}
		}
		if limitChanges && tp.Chance(1, 4) { // the remedy is reloaded with another size limit
			cacheCfg.MaxCacheSizeMegabytes = []float32{1, 0.5, 0.35, 0.1}[tp.Choose(4)]
			s.Event("limit", fmt.Sprint(cacheCfg.MaxCacheSizeMegabytes))
			s.FaultFired("cache_size_limit_changed")
		}
		now := s.Now()
		targets := []time.Duration{now, now + time.Microsecond, now + time.Duration(1+tp.Choose(2000))*time.Millisecond}
		cnt := 0
		for _, b := range sortedKeys(stored) {
			st := stored[b]
			e := st.at + st.ttl
			if e >= now && cnt < 6 {
				targets = append(targets, e, e-1, e+1)
				cnt++
			}
		}
		s.SleepUntil(targets[tp.Choose(len(targets))])
		k := 1
		if concP > 0 && tp.Chance(concP, 8) {
			k = tp.Range(2, 4)
		}
		type opT struct {
			resp bool
			k    key
		}
		ops := make([]opT, k)
		// a quarter of the groups consist of readers of entries that are still fresh:
		// those are the ones that can be held across the entry's expiry
		var fresh []key
		if k > 1 && tp.Chance(1, 4) {
			for _, b := range sortedKeys(stored) {
				if st := stored[b]; st.at+st.ttl > s.Now() && len(fresh) < 6 {
					if kk, ok := keyOf[st.key]; ok {
						fresh = append(fresh, kk)
					}
				}
			}
		}
		for i := range ops {
			if len(fresh) > 0 {
				ops[i] = opT{false, fresh[tp.Choose(len(fresh))]}
				continue
			}
			ops[i] = opT{tp.Chance(2, 5), pickKey()}
			// concurrent stores for one key (both pass the "already cached?" check)
			if i > 0 && tp.Chance(1, 2) {
				ops[i] = opT{true, ops[0].k}
				ops[0].resp = true
			}
		}
		if k == 1 {
			if ops[0].resp {
				doResponse(ops[0].k)
			} else {
				doRequest(ops[0].k, false)
			}
		} else {
			inGroup = true
			for i, o := range ops {
				o := o
				s.Spawn(fmt.Sprintf("op%d.%d", op, i), func() {
					if o.resp {
						doResponse(o.k)
					} else {
						doRequest(o.k, false)
					}
				})
			}
			allReaders := true
			for _, o := range ops {
				allReaders = allReaders && !o.resp
			}
			for st := 0; st < 3000; st++ {
				p := s.ParkedTasks()
				if len(p) == 0 {
					break
				}
				// a reader held at a lock site while a stored entry reaches its expiry
				// (the entry's own sleeper removes it meanwhile)
				if allReaders && st > 0 && tp.Chance(1, 4) {
					var exp []time.Duration
					for _, b := range sortedKeys(stored) {
						if e := stored[b].at + stored[b].ttl; e >= s.Now() && len(exp) < 8 {
							exp = append(exp, e+1, e+time.Millisecond)
						}
					}
					if len(exp) > 0 {
						s.SleepUntil(exp[tp.Choose(len(exp))])
						s.FaultFired("reader_stalled_across_expiry")
					}
				}
				s.Resume(p[tp.Choose(len(p))])
			}
			inGroup = false
			s.FaultFired("concurrent_group")
		}
		// every operation has returned: none of them may have kept a lock of the cache
		// (the next operation would wait for it for ever)
		s.Rule("R1")
		if d := s.LeakedLocks(); d != "" {
			s.Violate("R1", "lock-kept-after-the-operation-returned", "after the operations of step %d: %s", op, d)
			return
		}
		if tp.Chance(1, 4) {
			probeAll()
		}
	}
	if !s.Failed() {
		probeAll()
	}
	// batch mode: let every cache sleeper finish before the bubble ends
	s.Sleep(40 * time.Second)
}
