package scen

import (
	"fmt"
	"os"
	"path/filepath"
	"strings"
	"time"

	"lunar/engine/config"
	"lunar/engine/failsafe"
	"lunar/toolkit-core/clock"

	"verifsim/kernel"
)

// C20D - the diagnosis fail-safe as it is wired in production: the watcher built
// by NewDiagnosisFailsafeStateChangeWatcher from the DIAGNOSIS_FAILSAFE_*
// environment, its real predicate (HAProxy statistics page, served by the
// simulated HAProxy) and its real reactions (the policies accessor reverts to the
// diagnosis-free policies and back to the last loaded ones). The oracle is the
// trace oracle of C20; an observation is one request for the statistics page.

func init() { register(&Scenario{ID: "C20D", Run: runC20D}) }

func c20dPolicies(dir string) string {
	return fmt.Sprintf(`global:
  remedies:
    - name: marker
      enabled: false
      config:
        fixed_response:
          status_code: 418
  diagnosis:
    - name: diag
      enabled: true
      config:
        void: {}
      export: file
endpoints: []
exporters:
  file:
    file_dir: %s
    file_name: out.log
`, dir)
}

func runC20D(s *kernel.Sim) {
	tp := s.Tape
	consecutive := tp.Range(1, 4)
	stableS := tp.Choose(6)
	intervalS := tp.Range(1, 3)
	cooldownS := []int{0, 1, 7, 20}[tp.Choose(4)]
	healthyRate := tp.Choose(2)
	maxLastS := tp.Range(1, 5)
	length := tp.Range(10, 60)
	mode := tp.Choose(3)
	s.Knobs["consecutive"], s.Knobs["stable_s"], s.Knobs["interval_s"], s.Knobs["cooldown_s"] = consecutive, stableS, intervalS, cooldownS
	s.Knobs["healthy_session_rate"], s.Knobs["healthy_max_last_session_s"], s.Knobs["length"], s.Knobs["mode"] = healthyRate, maxLastS, length, mode
	s.LogEngineEvents = false
	env := map[string]int{
		"DIAGNOSIS_FAILSAFE_MIN_SEC_BETWEEN_CALLS":        intervalS,
		"DIAGNOSIS_FAILSAFE_CONSECUTIVE_N":                consecutive,
		"DIAGNOSIS_FAILSAFE_MIN_STABLE_SEC":               stableS,
		"DIAGNOSIS_FAILSAFE_COOLDOWN_SEC":                 cooldownS,
		"DIAGNOSIS_FAILSAFE_HEALTHY_SESSION_RATE":         healthyRate,
		"DIAGNOSIS_FAILSAFE_HEALTHY_MAX_LAST_SESSION_SEC": maxLastS,
	}
	for k, v := range env {
		os.Setenv(k, fmt.Sprint(v))
	}
	stable, interval, cooldown := time.Duration(stableS)*time.Second, time.Duration(intervalS)*time.Second, time.Duration(cooldownS)*time.Second

	dir := runTmp(s)
	polPath := filepath.Join(dir, "policies.yaml")
	os.Setenv("LUNAR_PROXY_POLICIES_CONFIG", polPath)
	os.Setenv("LUNAR_PROXY_CONFIG_DIR", dir)
	if err := os.WriteFile(polPath, []byte(c20dPolicies(dir)), 0o644); err != nil {
		s.HarnessErr = err.Error()
		return
	}
	hp := installHAProxy()
	res, err := config.BuildInitialFromFile()
	if err != nil {
		s.HarnessErr = "BuildInitialFromFile: " + err.Error()
		return
	}
	acc := res.Accessor
	diagOn := func() bool {
		p := acc.GetTxnPoliciesData(config.TxnID(fmt.Sprintf("probe-%d", s.Seq())))
		return p != nil && len(p.Config.Global.Diagnosis) > 0
	}
	if !diagOn() {
		s.HarnessErr = "the loaded policies carry no diagnosis plugin"
		return
	}

	// script of link states; each statistics request consumes one entry
	script := make([]int, 0, length) // 0 healthy, 1 unhealthy (rate), 2 unhealthy (last session), 3..6 not evaluable (counts as healthy)
	cur := !tp.Chance(1, 4)
	for len(script) < length {
		run := []int{tp.Range(5, 30), tp.Range(1, 3), tp.Range(1, 10)}[mode]
		for i := 0; i < run && len(script) < length; i++ {
			v := 0
			if !cur {
				v = 1 + tp.Choose(2)
			} else if tp.Chance(1, 5) {
				v = 3 + tp.Choose(4)
			}
			script = append(script, v)
		}
		cur = !cur
	}
	tailKind := 0
	if !tp.Chance(1, 2) {
		tailKind = 1 + tp.Choose(2)
	}
	for k := 0; k < consecutive+8+stableS; k++ { // the history ends with a long run of one state
		script = append(script, tailKind)
	}
	length = len(script)
	type obs struct {
		t time.Duration
		v bool
	}
	var observations []obs
	csv := func(kind int) (int, string) {
		head := "# pxname,svname,rate,lastsess\n"
		other := "front,FRONTEND,7,1\n"
		rate, last := healthyRate, maxLastS+5
		switch kind {
		case 1:
			rate = healthyRate + 1 + tp.Choose(3)
		case 2:
			last = tp.Choose(maxLastS + 1) // not older than the limit
		case 3:
			return 500, "boom"
		case 4:
			return 200, head + other // backend row missing
		case 5:
			return 200, head + other + "lunar,BACKEND,,\n" // fields empty
		case 6:
			return 200, head + other + fmt.Sprintf("lunar,BACKEND,%d,-1\n", rate) // no session yet
		}
		return 200, head + other + fmt.Sprintf("lunar,BACKEND,%d,%d\n", rate, last)
	}
	hp.Stats = func() (int, string) {
		i := len(observations)
		kind := script[len(script)-1]
		if i < len(script) {
			kind = script[i]
		}
		healthy := kind == 0 || kind >= 3
		observations = append(observations, obs{s.Now(), healthy})
		s.Event("observe", fmt.Sprintf("kind=%d healthy=%v", kind, healthy))
		return csv(kind)
	}

	w, err := failsafe.NewDiagnosisFailsafeStateChangeWatcher(acc, clock.NewRealClock())
	if err != nil {
		s.HarnessErr = "NewDiagnosisFailsafeStateChangeWatcher: " + err.Error()
		return
	}
	w.RunInBackground()
	// reactions are seen as the accessor switching between policies with and
	// without diagnosis plugins; polled every 100 ms (everything else sits on whole seconds)
	type react struct {
		t    time.Duration
		v    bool
		nObs int
	}
	var reactions []react
	state := true
	for i := 0; len(observations) < length && i < 200000; i++ {
		s.Sleep(100 * time.Millisecond)
		if on := diagOn(); on != state {
			state = on
			t := s.Now() / time.Second * time.Second
			reactions = append(reactions, react{t, on, len(observations)})
			s.Event("reaction", name20(on))
		}
	}
	_ = hp

	// ---- trace oracle (as C20) ----
	expect := false
	var lastUnhealthy time.Duration = -1
	for _, r := range reactions {
		s.Rule("R1")
		if r.v != expect {
			s.Violate("R1", "reactions-not-alternating", "reaction %v at %v, expected %v", name20(r.v), r.t, name20(expect))
		}
		expect = !r.v
		s.Rule("R2")
		if r.nObs < consecutive {
			s.Violate("R2", "reaction-before-enough-observations", "reaction %v at %v after only %d observations, consecutive=%d", name20(r.v), r.t, r.nObs, consecutive)
			continue
		}
		runStart := r.nObs - 1
		for runStart > 0 && observations[runStart-1].v == r.v {
			runStart--
		}
		runLen := r.nObs - runStart
		if observations[r.nObs-1].v != r.v || runLen < consecutive {
			s.Violate("R2", "reaction-without-consecutive-confirmations", "reaction %v at %v but only the last %d observation(s) show that state (of the link as the statistics page reported it), consecutive=%d", name20(r.v), r.t, runLen, consecutive)
		}
		if span := r.t - observations[runStart].t; span < stable {
			s.Violate("R2", "reaction-before-stable-period", "reaction %v at %v: the state has been observed for %v, stable period is %v", name20(r.v), r.t, span, stable)
		}
		s.Rule("R3")
		if lastUnhealthy >= 0 && r.t > lastUnhealthy && r.t < lastUnhealthy+cooldown {
			s.Violate("R3", "reaction-during-cooldown", "reaction %v at %v, %v after the unhealthy reaction; cool-down is %v", name20(r.v), r.t, r.t-lastUnhealthy, cooldown)
		}
		if !r.v {
			lastUnhealthy = r.t
		}
	}
	// R4 (wiring): the history ends with a long run of one state. If that state
	// differs from the one the fail-safe is in, was observed for more than the
	// configured number of checks and period, and the cool-down is over, the
	// reaction must have happened (predicate, thresholds and reactions are the
	// configured ones).
	s.Rule("R4")
	if n := len(observations); n > 0 {
		v := observations[n-1].v
		i := n - 1
		for i > 0 && observations[i-1].v == v {
			i--
		}
		in := true // state the fail-safe is in
		if len(reactions) > 0 {
			in = reactions[len(reactions)-1].v
		}
		tailLen, tailSpan := n-i, observations[n-1].t-observations[i].t
		afterCooldown := lastUnhealthy < 0 || observations[i].t >= lastUnhealthy+cooldown+interval
		if v != in && tailLen >= consecutive+2 && tailSpan >= stable+2*interval && afterCooldown {
			s.Violate("R4", "no-reaction-to-stable-state", "the link was reported %v for the last %d checks (%v), the fail-safe is still in state %v (consecutive=%d, stable period %v, interval %v)",
				name20(v), tailLen, tailSpan, name20(in), consecutive, stable, interval)
		}
	}
	if len(reactions) > 0 {
		s.Nontrivial()
	}
	s.State(fmt.Sprintf("r%d", len(reactions)))
	_ = strings.TrimSpace
}
