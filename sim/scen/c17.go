package scen

import (
	"fmt"
	"strings"
	"time"

	"lunar/engine/actions"
	lunarMessages "lunar/engine/messages"
	"lunar/engine/services/remedies"
	sharedConfig "lunar/shared-model/config"
	"lunar/toolkit-core/clock"

	"verifsim/kernel"
)

// C17 — retries are bounded by the configured number of attempts; exhaustion
// reports failure and forgets the sequence; an out-of-condition response never
// retries and ends the sequence. Two scenarios: C17P (policy-mode RetryPlugin)
// and C17F (flows-mode Retry processor). DESIGN.md section 4, C17.

func init() {
	register(&Scenario{ID: "C17P", Batch: true, Run: runC17P})
	register(&Scenario{ID: "C17F", Run: runC17F})
}

// c17call is the reference view of one logical call (sequence).
type c17call struct {
	open      bool
	retries   int
	exhausted bool // got `attempts` retries: next in-condition answer must be failure
	ended     bool // ended by an out-of-condition response or a failure verdict
	last      time.Duration
	ttl       time.Duration // state lifetime after the last retry (policy mode)
	// reusedMidCall: the id was reused while an earlier call was running, so the
	// engine may legitimately continue that call's smaller budget.
	reusedMidCall bool
}

func runC17P(s *kernel.Sim) {
	tp := s.Tape
	attempts := tp.Range(1, 4)
	cooldown := tp.Range(0, 3)
	mult := tp.Range(1, 3)
	if tp.Chance(1, 5) {
		mult = 0 // cooldown_multiplier left out of the remedy: cool-downs shrink to zero
	}
	nOps := tp.Range(5, 40)
	s.Knobs["attempts"], s.Knobs["cooldown_s"], s.Knobs["multiplier"], s.Knobs["ops"] = attempts, cooldown, mult, nOps
	cfg := &sharedConfig.RetryConfig{Attempts: attempts, InitialCooldownSeconds: cooldown, CooldownMultiplier: mult,
		Conditions: sharedConfig.RetryConfigConditions{StatusCode: []sharedConfig.Range[int]{{From: 500, To: 599}, {From: 429, To: 429}}}}
	plugin := remedies.NewRetryPlugin(clock.NewRealClock())
	// store pressure: in some runs more than a thousand other sequences become
	// alive in the shared retry-state store at some point of the history
	crowdAt, crowd := -1, 0
	if attempts >= 2 && tp.Chance(1, 6) {
		crowdAt, crowd = tp.Choose(nOps), 1100+tp.Choose(400)
		s.Knobs["other_live_sequences"], s.Knobs["crowd_at_op"] = crowd, crowdAt
	}
	calls := map[string]*c17call{}
	seqs := []string{"s1", "s2", "s3"}
	statuses := []int{500, 503, 599, 429, 200, 404, 499, 600}
	n := 0
	for op := 0; op < nOps && !s.Failed(); op++ {
		if op == crowdAt {
			for i := 0; i < crowd; i++ {
				id := fmt.Sprintf("crowd-%d", i)
				_, _ = plugin.OnResponse(lunarMessages.OnResponse{ID: id, SequenceID: id, Status: 500, Headers: map[string]string{}}, cfg)
			}
			s.FaultFired("retry_store_pressure")
			s.Event("crowd", fmt.Sprint(crowd))
		}
		seq := seqs[tp.Choose(len(seqs))]
		pressured := crowdAt >= 0 && op >= crowdAt-2
		if pressured && tp.Chance(3, 4) {
			seq = seqs[0] // keep one sequence busy while the store is under pressure
		}
		c := calls[seq]
		if c == nil {
			c = &c17call{}
			calls[seq] = c
		}
		// clock move: small, or around the state's time-to-live
		now := s.Now()
		targets := []time.Duration{now, now + time.Millisecond, now + time.Duration(1+tp.Choose(3000))*time.Millisecond} // also: at once (a client that does not wait)
		if c.open && c.ttl > 0 {
			e := c.last + c.ttl
			if e > now {
				targets = append(targets, e-1, e, e+1, e+time.Second)
			}
		}
		s.SleepUntil(targets[tp.Choose(len(targets))])
		now = s.Now()
		// new logical call (txn id == sequence id) or a follow-up of the open one
		fresh := !c.open || tp.Chance(1, 6)
		if pressured && c.open && !c.ended && !c.exhausted {
			fresh = false
		}
		n++
		id := fmt.Sprintf("%s-r%d", seq, n)
		if fresh {
			id = seq
		}
		status := statuses[tp.Weighted([]int{4, 2, 1, 2, 2, 1, 1, 1})]
		if pressured && tp.Chance(2, 3) {
			status = 500
		}
		inCond := (status >= 500 && status <= 599) || status == 429
		act, err := plugin.OnResponse(lunarMessages.OnResponse{ID: id, SequenceID: seq, Status: status, Headers: map[string]string{}}, cfg)
		if err != nil {
			s.Violate("R1", "plugin-error", "OnResponse error: %v", err)
			break
		}
		retry := false
		if m, ok := act.(*actions.ModifyResponseAction); ok {
			_, retry = m.HeadersToSet[remedies.LunarRetryAfterHeaderName]
		}
		s.Event("response", seq, fmt.Sprintf("txn=%s fresh=%v status=%d retry=%v", id, fresh, status, retry))

		stateMayBeGone := c.open && now >= c.last+c.ttl // lifetime passed (the cache sleeper deletes at the expiry instant)
		if fresh {
			// a response whose transaction id equals the sequence id is a new
			// logical call. After exhaustion / an ended call it must start afresh;
			// when it reuses the id of a call that is still running the engine may
			// go on with the rest of that call's budget (fewer retries, never more).
			prevRunning := c.open && !c.ended && !c.exhausted && !stateMayBeGone
			*c = c17call{open: true, reusedMidCall: prevRunning}
			if prevRunning {
				s.Probe("id_reused_mid_call")
			}
		}
		s.Rule("R3")
		if !inCond {
			if retry {
				s.Violate("R3", "retry-outside-conditions", "status %d is outside the retry conditions but a retry was requested (sequence %s)", status, seq)
			}
			c.ended = true
			continue
		}
		s.Rule("R1")
		switch {
		case c.ended:
			// after an out-of-condition response or a failure the sequence is over
			if retry {
				s.Violate("R3", "retry-after-sequence-ended", "sequence %s had ended (out-of-condition response or failure) but a follow-up response with status %d got a retry", seq, status)
			}
		case c.exhausted:
			s.Rule("R2")
			if retry {
				s.Violate("R1", "more-retries-than-attempts", "sequence %s got retry #%d, attempts=%d", seq, c.retries+1, attempts)
			}
			c.ended = true
			s.Nontrivial()
		case stateMayBeGone:
			// either continuing or forgetting is acceptable after the state's lifetime
			if retry {
				c.retries++
			} else {
				c.ended = true
			}
		default:
			// fewer retries than configured are within "at most"; only the first
			// response of a call that starts afresh must be granted its retry
			if !retry {
				if fresh && !c.reusedMidCall && attempts >= 1 {
					s.Rule("R2")
					s.Violate("R2", "fresh-call-without-budget", "sequence %s: a new call (txn %s) starting afresh got failure on its first in-condition response (status %d), attempts=%d", seq, id, status, attempts)
				}
				c.ended = true
				break
			}
			if fresh {
				s.Rule("R2")
			}
			c.retries++
		}
		if retry {
			if c.retries > attempts {
				s.Violate("R1", "more-retries-than-attempts", "sequence %s got retry #%d, attempts=%d", seq, c.retries, attempts)
			}
			// next cool-down = cooldown * mult^(retries-1); lifetime = that + 31 s
			cd := cooldown
			for i := 1; i < c.retries; i++ {
				cd *= mult
			}
			c.last, c.ttl = now, time.Duration(cd+31)*time.Second
			if c.retries >= attempts {
				c.exhausted = true
			}
		}
		s.State(fmt.Sprintf("%d/%d/%v/%v", c.retries, attempts, c.exhausted, c.ended))
	}
	s.Sleep(400 * time.Second) // batch mode: let cache sleepers finish
}

func runC17F(s *kernel.Sim) {
	tp := s.Tape
	attempts := tp.Range(1, 4)
	cooldown := tp.Range(0, 2)
	mult := tp.Range(0, 2)
	nOps := tp.Range(5, 30)
	concP := tp.Choose(3)
	siteOn, density := lockSites(tp)
	s.Knobs["attempts"], s.Knobs["cooldown_s"], s.Knobs["multiplier"], s.Knobs["ops"], s.Knobs["lock_sites"] = attempts, cooldown, mult, nOps, density
	// a slow upstream: a sequence may still be answered long after its first retry,
	// also later than cool-down + retry request timeout (short in half of the runs)
	engineRetryTimeoutS = []int{600, 10}[tp.Choose(2)]
	slowP := tp.Choose(4)
	s.Knobs["retry_timeout_s"], s.Knobs["slow_upstream_per_10_ops"] = engineRetryTimeoutS, slowP
	files := map[string]string{
		"flows/fr.yaml": flowDef{
			Name: "fr", URL: "a.com/r",
			Procs: []procDef{
				{Key: "flt", Type: "Filter", Params: [][2]string{{"status_code_range", "500-599"}}},
				{Key: "retry", Type: "Retry", Params: [][2]string{{"attempts", fmt.Sprint(attempts)},
					{"cooldown_between_attempts_seconds", fmt.Sprint(cooldown)}, {"cooldown_multiplier", fmt.Sprint(mult)}}},
			},
			Req: []connDef{{FromStream: "start", ToStream: "end"}},
			Resp: []connDef{
				{FromStream: "start", ToProc: "flt"},
				{FromProc: "flt", Cond: "hit", ToProc: "retry"},
				{FromProc: "flt", Cond: "miss", ToStream: "end"},
				{FromProc: "retry", Cond: "retry", ToStream: "end"},
				{FromProc: "retry", Cond: "failed", ToStream: "end"},
			},
		}.YAML(),
	}
	// a second flow on an enclosing pattern with processors of the same names: both
	// flows handle every response, each Retry processor keeps its own count
	twoFlows := tp.Chance(1, 3)
	s.Knobs["second_flow_with_same_processor_names"] = twoFlows
	if twoFlows {
		files["flows/fw.yaml"] = strings.Replace(strings.Replace(files["flows/fr.yaml"], "name: fr", "name: fw", 1), "\"a.com/r\"", "\"a.com/*\"", 1)
	}
	env, err := newEngine(s, files)
	if err != nil {
		s.HarnessErr = "engine rejected generated C17F configuration: " + err.Error()
		return
	}
	inGroup := false
	s.YieldOn = func(point string, a []string, harness bool) bool {
		return harness && inGroup && isLockPoint(point) && siteOn(a[0])
	}
	// verdict per transaction from the executor's own events
	verdict := map[string]string{}
	s.OnEvent = func(kind string, a []string) {
		if kind == "proc.executed" && len(a) == 5 && a[2] == "retry" {
			// with two flows two Retry processors run: "retry" if either asks for one
			if verdict[a[0]] != "retry" {
				verdict[a[0]] = a[4]
			}
		}
	}
	s.LogEngineEvents = false
	type call struct {
		retries int
	}
	calls := map[string]*call{}
	seqs := []string{"s1", "s2", "s3"}
	if tp.Chance(1, 4) {
		seqs[2] = "" // a client that sends an empty x-lunar-sequence-id: still one sequence
	}
	// sequence ids come from the client: a quarter of the runs use long ones that differ
	// only after their first 48 characters
	longIDs := tp.Chance(1, 4)
	if longIDs {
		pre := strings.Repeat("0123456789abcdef", []int{3, 3, 17}[tp.Choose(3)]) // 48 characters, or 272
		for i, q := range seqs {
			if q != "" {
				seqs[i] = pre + "-" + q
			}
		}
	}
	s.Knobs["long_sequence_ids_with_a_common_prefix"] = longIDs
	pinned := tp.Chance(1, 4)
	s.Knobs["client_pins_transaction_id"] = pinned
	statuses := []int{500, 503, 599, 200, 404, 429}
	n := 0
	type respOp struct {
		seq, id string
		status  int
		acts    []string
		err     error
	}
	judge := func(o *respOp) {
		c := calls[o.seq]
		if c == nil {
			c = &call{}
			calls[o.seq] = c
		}
		v := verdict[o.id]
		hasAction := false
		for _, a := range o.acts {
			if a == "*actions.RetryRequestAction" {
				hasAction = true
			}
		}
		s.Event("response", o.seq, fmt.Sprintf("txn=%s status=%d verdict=%q retry_action=%v", o.id, o.status, v, hasAction))
		if o.err != nil {
			s.Violate("R1", "execute-error", "ExecuteFlow(response) error: %v", o.err)
			return
		}
		inCond := o.status >= 500 && o.status <= 599
		s.Rule("R3")
		if !inCond {
			if v != "" || hasAction {
				s.Violate("R3", "retry-outside-conditions", "status %d is outside the flow's retry condition but the Retry processor ran (verdict %q)", o.status, v)
			}
			return
		}
		s.Rule("R1")
		s.Rule("R2")
		if (v == "retry") != hasAction {
			s.Violate("R1", "verdict-action-mismatch", "Retry processor verdict %q but retry action present=%v", v, hasAction)
		}
		switch {
		case c.retries >= attempts:
			if v != "failed" {
				s.Violate("R1", "more-retries-than-attempts", "sequence %s got verdict %q after %d retries, attempts=%d", o.seq, v, c.retries, attempts)
			}
			c.retries = 0 // forgotten: a later call starts afresh
			s.Nontrivial()
		default:
			if v != "retry" {
				// fewer retries than configured are within "at most"; but a call
				// that starts afresh must get its first retry
				if c.retries == 0 {
					s.Violate("R2", "fresh-call-without-budget", "sequence %s: first in-condition response after a fresh start got verdict %q, attempts=%d", o.seq, v, attempts)
				}
				c.retries = 0
				return
			}
			c.retries++
		}
		s.State(fmt.Sprintf("%d/%d", c.retries, attempts))
	}
	run := func(o *respOp) {
		r := env.doResponseSeq(o.id, o.seq, "GET", "a.com", "/r", o.status)
		o.acts, o.err = r.Acts, r.Err
	}
	for op := 0; op < nOps && !s.Failed(); op++ {
		s.Sleep(time.Duration(1+tp.Choose(2000)) * time.Millisecond)
		if slowP > 0 && tp.Chance(slowP, 10) {
			s.Sleep([]time.Duration{4 * time.Second, 11 * time.Second, time.Duration(engineRetryTimeoutS+3) * time.Second}[tp.Choose(3)])
			s.FaultFired("slow_upstream")
		}
		k := 1
		if concP > 0 && tp.Chance(concP, 5) {
			k = tp.Range(2, 3)
		}
		// concurrent responses always belong to different sequences (a sequence is sequential by definition)
		perm := tp.Perm(len(seqs))
		var ops []*respOp
		for i := 0; i < k; i++ {
			n++
			seq := seqs[perm[i]]
			id := fmt.Sprintf("%s-r%d", seq, n)
			if pinned && seq != "" {
				id = seq // the client pins the transaction id (x-lunar-req-id): every attempt carries the sequence's id
			}
			delete(verdict, id)
			ops = append(ops, &respOp{seq: seq, id: id, status: statuses[tp.Weighted([]int{4, 2, 1, 2, 1, 1})]})
		}
		inGroup = k > 1
		var tasks []*kernel.Task
		for _, o := range ops {
			o := o
			tasks = append(tasks, s.Spawn(o.id, func() { run(o) }))
		}
		for st := 0; st < 4000; st++ {
			p := s.ParkedTasks()
			if len(p) > 0 {
				s.Resume(p[tp.Choose(len(p))])
				continue
			}
			done := true
			for _, t := range tasks {
				if !t.Done() {
					done = false
				}
			}
			if done {
				break
			}
			s.Sleep(500 * time.Millisecond) // cool-down waits run on fake time
		}
		inGroup = false
		if k > 1 {
			s.FaultFired("concurrent_sequences_in_cooldown")
		}
		for _, o := range ops {
			judge(o)
		}
	}
}
