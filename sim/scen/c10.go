package scen

import (
	"context"
	"fmt"
	"sort"
	"strconv"
	"time"

	"go.opentelemetry.io/otel/metric/noop"

	"lunar/engine/actions"
	"lunar/engine/config"
	lunarMessages "lunar/engine/messages"
	"lunar/engine/services/remedies"
	"lunar/engine/utils/queue"
	sharedConfig "lunar/shared-model/config"
	"lunar/toolkit-core/clock"
	"lunar/toolkit-core/logging"

	"verifsim/kernel"
)

// C10 — policy-mode delayed queue releases waiters in order and never strands
// one. Real StrategyBasedQueuePlugin + real in-memory DelayedPriorityQueue on
// the bubble's fake clock. See DESIGN.md section 4, C10.

func init() { register(&Scenario{ID: "C10", Run: runC10}) }

type c10req struct {
	id        string
	prio      float64
	arrive    time.Duration
	arriveSeq uint64
	listenAt  time.Duration // when it started listening (TTL timer start)
	queued    bool          // pushed onto the heap (dpq.queued)
	queuedT   time.Duration // instant of that decision
	queuedSeq uint64
	stamp     int64 // engine timestamp of the request, unix ns (rank tie-break)
	left      bool  // gave its waiter slot back (dpq.left)
	leftSeq   uint64
	immediate bool // admitted at once (dpq.immediate)
	refused   bool // refused at once (dpq.refused)
	decSeq    uint64
	decT      time.Duration
	done      bool
	allowed   bool
	end       time.Duration
	endSeq    uint64
	grantT    time.Duration
	grantSeq  uint64
	granted   bool // dpq.granted event seen
	missed    bool // dpq.missed event seen while still waiting
	missedSeq uint64
	task      *kernel.Task
}

func runC10(s *kernel.Sim) {
	tp := s.Tape
	quota := int64(tp.Range(1, 2))
	winS := tp.Range(1, 5)
	qsize := int64(tp.Range(1, 4))
	ttlS := tp.Range(1, 3*winS)
	nArr := tp.Range(2, 9)
	usePrio := tp.Chance(2, 3)
	hookOn := tp.Chance(3, 4)
	if tp.Chance(1, 4) {
		// crowded profile: many waiters of mixed priority behind one slot per window,
		// a TTL a little shorter than the window - waiters expire one by one while
		// others stay queued, and the next roll-over has to pick among the rest
		quota, qsize, usePrio = 1, 4, true
		winS = tp.Range(3, 5)
		ttlS = winS - 1
		nArr = tp.Range(6, 9)
	}
	// swarm weights for the step menu (index 0 = start next arrival)
	wArr := 1 + tp.Choose(4)
	wRes := tp.Choose(4)
	wClk := 1 + tp.Choose(4)
	W := time.Duration(winS) * time.Second
	TTL := time.Duration(ttlS) * time.Second
	s.Knobs["quota"], s.Knobs["window_s"], s.Knobs["queue_size"] = quota, winS, qsize
	s.Knobs["ttl_s"], s.Knobs["arrivals"], s.Knobs["prio"], s.Knobs["hook"] = ttlS, nArr, usePrio, hookOn

	siteOn, density := lockSites(tp)
	s.Knobs["lock_sites"] = density
	// in a third of the runs the queue's own roll-over goroutine is scheduled at
	// lock sites too: an arrival can then take the queue mutex in the new window
	// before the roll-over goroutine, whose timer has already fired, gets it.
	// It is never held back while the clock moves (no stall: R1 counts the slots
	// handed out at the roll-over instant).
	bgYield := tp.Chance(1, 3)
	advancing, settling := false, false
	var stalls [][2]time.Duration // intervals in which the simulator held the roll-over goroutine back
	s.Knobs["rollover_goroutine_schedulable"] = bgYield
	s.YieldOn = func(point string, a []string, harness bool) bool {
		if !harness {
			return bgYield && !advancing && !settling && isLockPoint(point)
		}
		if isLockPoint(point) {
			return siteOn(a[0])
		}
		return hookOn && point == "dpq.after_unlock_before_wait"
	}

	cl := clock.NewRealClock()
	lg := logging.ContextLogger{}
	plugin := remedies.NewStrategyBasedQueuePlugin(context.Background(), cl, lg,
		noop.NewMeterProvider().Meter("verif"),
		func(k queue.QueueKey) queue.DelayedPriorityQueueable {
			return queue.NewInMemoryDelayedPriorityQueue(k, cl, lg)
		})
	cfg := &sharedConfig.StrategyBasedQueueConfig{
		AllowedRequestCount: quota, WindowSizeInSeconds: winS, ResponseStatusCode: 429,
		TTLSeconds: float32(ttlS), QueueSize: qsize,
	}
	if usePrio {
		cfg.Prioritization = &sharedConfig.GroupPrioritization{
			GroupBy: sharedConfig.GroupBy{HeaderName: "x-group"},
			Groups: map[string]sharedConfig.Prioritization{
				"g0": {Priority: 0}, "g1": {Priority: 1}, "g2": {Priority: 2},
			},
		}
	}
	remedy := config.ScopedRemedy{Remedy: &sharedConfig.Remedy{
		Enabled: true, Name: "q", Config: sharedConfig.RemedyConfig{StrategyBasedQueue: cfg},
	}}

	reqs := map[string]*c10req{}
	var order []*c10req
	s.OnEvent = func(kind string, a []string) {
		if len(a) == 0 {
			return
		}
		r := reqs[a[0]]
		if r == nil {
			return
		}
		switch kind {
		case "dpq.queued":
			r.queued, r.queuedSeq, r.queuedT = true, s.Seq(), s.Now()
			r.stamp, _ = strconv.ParseInt(a[1], 10, 64)
		case "dpq.left":
			r.left, r.leftSeq = true, s.Seq()
		case "dpq.immediate":
			r.immediate, r.decSeq, r.decT = true, s.Seq(), s.Now()
		case "dpq.refused":
			r.refused, r.decSeq, r.decT = true, s.Seq(), s.Now()
		case "dpq.granted":
			r.granted, r.grantT, r.grantSeq = true, s.Now(), s.Seq()
		case "dpq.missed":
			if !r.left {
				r.missed, r.missedSeq = true, s.Seq()
				s.Probe("handoff_missed_while_waiting")
			} else {
				s.Probe("expired_entry_popped")
			}
		}
	}

	startArrival := func() {
		i := len(order)
		r := &c10req{id: fmt.Sprintf("r%d", i)}
		hdr := map[string]string{}
		if usePrio {
			g := tp.Choose(3)
			hdr["x-group"] = fmt.Sprintf("g%d", g)
			r.prio = float64(g)
		}
		reqs[r.id] = r
		order = append(order, r)
		r.task = s.Spawn(r.id, func() {
			r.arrive, r.arriveSeq = s.Now(), s.Seq()
			r.listenAt = r.arrive
			s.Event("arrive", r.id, fmt.Sprint(r.prio))
			act, err := plugin.OnRequest(lunarMessages.OnRequest{ID: r.id, Headers: hdr}, remedy)
			r.done, r.end, r.endSeq = true, s.Now(), s.Seq()
			_, noop := act.(*actions.NoOpAction)
			r.allowed = noop && err == nil
			s.Event("return", r.id, fmt.Sprint(r.allowed))
		})
		s.Resume(r.task)
	}
	waiting := func() []*c10req {
		var w []*c10req
		for _, r := range order {
			if r.queued && !r.done && !r.left && !r.granted {
				w = append(w, r)
			}
		}
		return w
	}
	resume := func(t *kernel.Task) {
		r := reqs[t.Name]
		if r != nil && t.Point == "dpq.after_unlock_before_wait" {
			r.listenAt = s.Now()
			if t.Stalled {
				s.FaultFired("stall_at_handoff")
			}
		}
		s.Resume(t)
	}
	checkSize := func() {
		s.Rule("R3")
		if n := int64(len(waiting())); n > qsize {
			s.Violate("R3", "waiters>queue_size", "%d requests wait inside the queue, queue_size=%d", n, qsize)
		}
		s.State(fmt.Sprintf("w%d/p%d", len(waiting()), len(s.ParkedTasks())))
	}
	nextBoundary := func() time.Duration { return (s.Now()/W + 1) * W }

	for step := 0; step < 60 && !s.Failed(); step++ {
		parked := s.ParkedTasks()
		w := []int{0, 0, wClk}
		if len(order) < nArr {
			w[0] = wArr
		}
		if len(parked) > 0 {
			w[1] = wRes
		}
		if len(order) >= nArr && len(waiting()) == 0 && len(parked) == 0 {
			break
		}
		bgParked := false
		for _, t := range parked {
			bgParked = bgParked || !t.Harness
		}
		drainBG := func() {
			for i := 0; i < 200; i++ {
				var bg []*kernel.Task
				for _, t := range s.ParkedTasks() {
					if !t.Harness {
						bg = append(bg, t)
					}
				}
				if len(bg) == 0 {
					return
				}
				s.Resume(bg[0])
			}
		}
		switch tp.Weighted(w) {
		case 0:
			if !bgParked { // while the roll-over goroutine is held, arrivals come at the same instant
				advancing = true // a roll-over inside this microsecond runs freely (never stalled while time passes)
				s.Sleep(time.Microsecond)
				advancing = false
			} else {
				s.FaultFired("arrival_while_rollover_goroutine_waits_for_the_mutex")
			}
			startArrival()
		case 1:
			resume(parked[tp.Choose(len(parked))])
		case 2:
			drainBG()
			nb := nextBoundary()
			targets := []time.Duration{s.Now() + time.Microsecond, nb, nb - 1, nb + 1, nb + time.Duration(tp.Choose(3))*W + W/2,
				s.Now() + time.Duration(1+tp.Choose(3))*500*time.Millisecond}
			for _, r := range waiting() {
				if r.task.Parked() {
					continue
				}
				e := r.listenAt + TTL
				targets = append(targets, e, e-1, e+1)
			}
			t := targets[tp.Choose(len(targets))]
			if bgYield && len(waiting()) > 0 && tp.Chance(1, 2) {
				t = nb // the instant at which the roll-over goroutine and new arrivals compete for the mutex
			}
			if bgYield && t > s.Now()+1 {
				advancing = true // roll-overs inside the jump run freely; one at the target instant is scheduled
				s.SleepUntil(t - 1)
				advancing = false
			}
			s.SleepUntil(t)
			// the roll-over goroutine now waits for the queue mutex: let a new arrival
			// run all the way through Enqueue first (the rare order), half of the time
			held := false
			for _, p := range s.ParkedTasks() {
				held = held || !p.Harness
			}
			// a fault: the roll-over goroutine, its timer fired, does not get to run for a
			// while (a slow goroutine). The roll-over of this instant is late and is not
			// judged; once it has run the queue is back on the grid of the windows
			if held && t == nb && tp.Chance(1, 4) {
				lag := time.Duration(1+tp.Choose(7)) * 100 * time.Millisecond
				if lag >= W {
					lag = W / 2
				}
				stalls = append(stalls, [2]time.Duration{s.Now(), s.Now() + lag})
				s.Sleep(lag)
				s.FaultFired("rollover_goroutine_stalled_past_the_window_boundary")
				drainBG()
				held = false
			}
			if held && len(order) < nArr && tp.Chance(1, 2) {
				s.FaultFired("arrival_while_rollover_goroutine_waits_for_the_mutex")
				startArrival()
				a := order[len(order)-1]
				for i := 0; i < 100 && a.task.Parked() && a.task.Point != "dpq.after_unlock_before_wait"; i++ {
					resume(a.task)
				}
			}
		}
		checkSize()
	}
	// settle: faults stop, every task is released and time passes every TTL
	settling = true
	for i := 0; i < 20 && !s.Failed(); i++ {
		for _, t := range s.ParkedTasks() {
			resume(t)
		}
		if len(waiting()) == 0 && len(s.ParkedTasks()) == 0 {
			break
		}
		s.SleepUntil(s.Now() + TTL + W)
	}
	if s.HarnessErr != "" {
		return
	}

	// ---- oracle over the recorded history ---------------------------------
	// All judgements use the engine's own decision points (events emitted
	// under the queue mutex), ordered by event sequence number.
	rank := func(a, b *c10req) bool { // a strictly better than b
		if a.prio != b.prio {
			return a.prio < b.prio
		}
		return a.stamp < b.stamp
	}
	type grant struct {
		t   time.Duration
		seq uint64
		r   *c10req
	}
	var grants []grant
	for _, r := range order {
		switch {
		case r.granted:
			grants = append(grants, grant{r.grantT, r.grantSeq, r})
		case r.immediate:
			grants = append(grants, grant{r.decT, r.decSeq, r})
		case r.done && r.allowed:
			s.Violate("R2", "allowed-without-grant", "%s returned allowed but the queue never granted it", r.id)
		}
		if r.done && !r.allowed && (r.immediate || (r.granted && r.end != r.grantT)) {
			s.Violate("R2", "granted-but-rejected", "%s was granted a slot at %v but returned rejected at %v", r.id, r.grantT, r.end)
		}
	}
	sort.Slice(grants, func(i, j int) bool { return grants[i].seq < grants[j].seq })
	perWin := map[int64]int64{}
	atInstant := map[time.Duration]int64{}
	for _, g := range grants {
		perWin[int64(g.t/W)]++
		atInstant[g.t]++
	}
	s.Rule("R2")
	for k, n := range perWin {
		if n > quota {
			s.Violate("R2", "grants>quota", "window %d (length %v) has %d grants, quota %d", k, W, n, quota)
		}
	}
	if len(grants) > 0 && len(order) > int(quota) {
		s.Nontrivial()
	}
	// a request is made to wait only if the quota of the window it arrives in is
	// used up: every slot of that window was handed out before its decision
	s.Rule("R5")
	for _, r := range order {
		if !r.queued {
			continue
		}
		k, used := int64(r.queuedT/W), int64(0)
		for _, g := range grants {
			if g.seq < r.queuedSeq && int64(g.t/W) == k {
				used++
			}
		}
		if used < quota {
			s.Violate("R5", "queued-although-a-slot-was-free", "%s was made to wait at %v although only %d of the %d slots of window %d had been handed out", r.id, r.queuedT, used, quota, k)
			break
		}
	}
	for _, r := range order {
		if !r.done {
			s.Rule("R1")
			s.Violate("R1", "never-returned", "%s never returned (arrived %v)", r.id, r.arrive)
			continue
		}
		if r.allowed {
			continue
		}
		if r.refused {
			// refused at once: only legal when the queue was full at that decision
			s.Rule("R5")
			n := int64(0)
			for _, o := range order {
				if o != r && o.queued && o.queuedSeq < r.decSeq && (!o.left || o.leftSeq > r.decSeq) {
					n++
				}
			}
			if n < qsize {
				s.Violate("R5", "refused-not-full", "%s refused at once at %v with %d waiters, queue_size %d", r.id, r.decT, n, qsize)
			}
			continue
		}
		if !r.queued {
			s.Violate("R5", "rejected-without-queueing", "%s rejected without being refused for size or queued", r.id)
			continue
		}
		// rejected after waiting: its turn must never have come. Its wait in the
		// heap starts at the queued decision; every roll-over instant strictly
		// inside (queued, end) must have used the whole quota.
		s.Rule("R1")
		qT := time.Duration(0)
		for _, e := range s.Events {
			if e.Seq == r.queuedSeq {
				qT = time.Duration(e.T)
			}
		}
		for k := qT/W + 1; k*W < r.end; k++ {
			sk := k * W
			if r.listenAt+TTL <= sk {
				break // its TTL had really elapsed before this roll-over
			}
			stalled := false
			for _, st := range stalls {
				stalled = stalled || (st[0] <= sk && sk <= st[1])
			}
			if stalled {
				continue // the roll-over of this instant was held back by the simulator
			}
			if atInstant[sk] < quota {
				sig := "stranded"
				if r.missed {
					sig = "stranded:handoff-missed-while-not-listening"
				}
				s.Violate("R1", sig, "%s (prio %v, queued %v) expired at %v although the window starting at %v released only %d of %d",
					r.id, r.prio, qT, r.end, sk, atInstant[sk], quota)
				break
			}
		}
	}
	// R4: order among roll-over grants
	for _, g := range grants {
		if !g.r.granted {
			continue
		}
		s.Rule("R4")
		for _, o := range order {
			if o == g.r || !o.queued || o.queuedSeq > g.seq || !rank(o, g.r) {
				continue
			}
			if o.left && o.leftSeq < g.seq {
				continue // already left
			}
			if o.missed && o.missedSeq < g.seq {
				continue // lost hand-off: judged by R1
			}
			if o.granted && o.grantSeq < g.seq {
				continue
			}
			if o.listenAt+TTL <= g.t {
				continue // its TTL ends at this very instant or earlier
			}
			s.Violate("R4", "order", "%s (prio %v, stamp %d) granted at %v while better-ranked %s (prio %v, stamp %d) still waits",
				g.r.id, g.r.prio, g.r.stamp, g.t, o.id, o.prio, o.stamp)
		}
	}
}
