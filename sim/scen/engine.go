package scen

import (
	"fmt"
	"os"
	"path/filepath"
	"sort"
	"strings"

	"lunar/engine/actions"
	lunarMessages "lunar/engine/messages"
	"lunar/engine/streams"
	streamconfig "lunar/engine/streams/config"
	lunarContext "lunar/engine/streams/lunar-context"
	publictypes "lunar/engine/streams/public-types"
	streamtypes "lunar/engine/streams/types"
	"lunar/engine/utils/environment"

	"verifsim/kernel"
)

// engineEnv is a real streams engine loaded from a generated configuration
// tree in a per-run temporary directory.
type engineEnv struct {
	Dir    string
	Stream *streams.Stream
	Shared publictypes.SharedStateI[[]byte]
	Files  map[string]string
}

const registryDir = "/repo/proxy/src/services/lunar-engine/streams/processors/registry"

// writeTree writes files (relative path -> content) under dir.
func writeTree(dir string, files map[string]string) error {
	for _, sub := range []string{"flows", "quotas", "path_params"} {
		if err := os.MkdirAll(filepath.Join(dir, sub), 0o755); err != nil {
			return err
		}
	}
	for rel, content := range files {
		p := filepath.Join(dir, rel)
		if err := os.MkdirAll(filepath.Dir(p), 0o755); err != nil {
			return err
		}
		if err := os.WriteFile(p, []byte(content), 0o644); err != nil {
			return err
		}
	}
	return nil
}

func setEngineEnv(dir string) {
	environment.SetStreamsFlowsDirectory(filepath.Join(dir, "flows"))
	environment.SetQuotasDirectory(filepath.Join(dir, "quotas"))
	environment.SetPathParamsDirectory(filepath.Join(dir, "path_params"))
	environment.SetProcessorsDirectory(registryDir)
	os.Setenv("LUNAR_STREAMS_ENABLED", "true")
	os.Setenv("LUNAR_RETRY_REQUEST_TIMEOUT_SEC", fmt.Sprint(engineRetryTimeoutS))
}

// engineRetryTimeoutS is the retry request timeout the next engine is built with
// (one scenario per process sets it before newEngine).
var engineRetryTimeoutS = 600

// newEngine builds and initialises a real streams.Stream from files.
func newEngine(s *kernel.Sim, files map[string]string) (*engineEnv, error) {
	dir := runTmp(s)
	if err := writeTree(dir, files); err != nil {
		return nil, err
	}
	setEngineEnv(dir)
	st, err := streams.NewStream()
	if err != nil {
		return nil, fmt.Errorf("NewStream: %w", err)
	}
	if err := st.Initialize(); err != nil {
		return nil, fmt.Errorf("Initialize: %w", err)
	}
	return &engineEnv{Dir: dir, Stream: st, Shared: lunarContext.NewMemoryState[[]byte](), Files: files}, nil
}

type reqOutcome struct {
	Early  bool
	Status int
	Body   string
	Err    error
	Acts   []string
}

func reqMsg(id, method, host, path string, headers map[string]string) lunarMessages.OnRequest {
	if headers == nil {
		headers = map[string]string{}
	}
	return lunarMessages.OnRequest{
		ID: id, SequenceID: id, Method: method, Scheme: "https", URL: host + path, Path: path,
		Headers: headers, RawBody: []byte{},
	}
}

// doRequest runs the request side of a transaction the way processRequest does.
func (e *engineEnv) doRequest(m lunarMessages.OnRequest) reqOutcome {
	api := streamtypes.NewRequestAPIStream(m, e.Shared)
	fa := &streamconfig.StreamActions{Request: &streamconfig.RequestStream{}}
	err := e.Stream.ExecuteFlow(api, fa)
	out := reqOutcome{Err: err}
	for _, a := range fa.Request.Actions {
		out.Acts = append(out.Acts, fmt.Sprintf("%T", a))
		if er, ok := a.(*actions.EarlyResponseAction); ok && !out.Early {
			out.Early, out.Status, out.Body = true, er.Status, er.Body
		}
	}
	return out
}

type respOutcome struct {
	Err  error
	Acts []string
}

// doResponse runs the response side of a transaction.
func (e *engineEnv) doResponse(id, method, host, path string, status int, headers map[string]string) respOutcome {
	return e.doResponseFull(id, id, method, host, path, status, headers)
}

// doResponseSeq is doResponse for a transaction that belongs to sequence seq.
func (e *engineEnv) doResponseSeq(id, seq, method, host, path string, status int) respOutcome {
	return e.doResponseFull(id, seq, method, host, path, status, nil)
}

func (e *engineEnv) doResponseFull(id, seq, method, host, path string, status int, headers map[string]string) respOutcome {
	if headers == nil {
		headers = map[string]string{}
	}
	m := lunarMessages.OnResponse{ID: id, SequenceID: seq, Method: method, URL: host + path, Status: status,
		Headers: headers, RawBody: []byte{}}
	api := streamtypes.NewResponseAPIStream(m, e.Shared)
	fa := &streamconfig.StreamActions{Response: &streamconfig.ResponseStream{}}
	err := e.Stream.ExecuteFlow(api, fa)
	out := respOutcome{Err: err}
	for _, a := range fa.Response.Actions {
		out.Acts = append(out.Acts, fmt.Sprintf("%T", a))
	}
	return out
}

// ---- YAML builders -----------------------------------------------------------

type procDef struct {
	Key    string
	Type   string
	Params [][2]string
}

type connDef struct {
	FromStream string // "start" when from stream
	FromProc   string
	Cond       string
	FromFlow   string // flow reference
	FromFlowAt string
	ToStream   string // "end" when to stream
	ToProc     string
	ToFlow     string
	ToFlowAt   string
}

type flowDef struct {
	Name    string
	URL     string
	Methods []string
	Headers [][2]string
	Query   [][2]string
	Status  []int
	Procs   []procDef
	Req     []connDef
	Resp    []connDef
}

func (f flowDef) YAML() string {
	var b strings.Builder
	fmt.Fprintf(&b, "name: %s\n\nfilter:\n  url: %q\n", f.Name, f.URL)
	if len(f.Methods) > 0 {
		fmt.Fprintf(&b, "  method: [%s]\n", strings.Join(f.Methods, ", "))
	}
	if len(f.Headers) > 0 {
		b.WriteString("  headers:\n")
		for _, h := range f.Headers {
			if h[1] == "*" {
				fmt.Fprintf(&b, "    - key: %q\n", h[0])
				continue
			}
			fmt.Fprintf(&b, "    - key: %q\n      value: %q\n", h[0], h[1])
		}
	}
	if len(f.Query) > 0 {
		b.WriteString("  query_params:\n")
		for _, h := range f.Query {
			if h[1] == "*" {
				fmt.Fprintf(&b, "    - key: %q\n", h[0])
				continue
			}
			fmt.Fprintf(&b, "    - key: %q\n      value: %q\n", h[0], h[1])
		}
	}
	if len(f.Status) > 0 {
		ss := make([]string, len(f.Status))
		for i, x := range f.Status {
			ss[i] = fmt.Sprint(x)
		}
		fmt.Fprintf(&b, "  status_code: [%s]\n", strings.Join(ss, ", "))
	}
	b.WriteString("\nprocessors:\n")
	for _, p := range f.Procs {
		fmt.Fprintf(&b, "  %s:\n    processor: %s\n", p.Key, p.Type)
		if len(p.Params) > 0 {
			b.WriteString("    parameters:\n")
			for _, kv := range p.Params {
				fmt.Fprintf(&b, "      - key: %s\n        value: %s\n", kv[0], kv[1])
			}
		}
	}
	b.WriteString("\nflow:\n")
	wr := func(name string, cs []connDef) {
		if len(cs) == 0 {
			return
		}
		fmt.Fprintf(&b, "  %s:\n", name)
		for _, c := range cs {
			b.WriteString("    - from:\n")
			switch {
			case c.FromStream != "":
				fmt.Fprintf(&b, "        stream:\n          name: globalStream\n          at: %s\n", c.FromStream)
			case c.FromFlow != "":
				fmt.Fprintf(&b, "        flow:\n          name: %s\n          at: %s\n", c.FromFlow, c.FromFlowAt)
			default:
				fmt.Fprintf(&b, "        processor:\n          name: %s\n", c.FromProc)
				if c.Cond != "" {
					fmt.Fprintf(&b, "          condition: %s\n", c.Cond)
				}
			}
			b.WriteString("      to:\n")
			switch {
			case c.ToStream != "":
				fmt.Fprintf(&b, "        stream:\n          name: globalStream\n          at: %s\n", c.ToStream)
			case c.ToFlow != "":
				fmt.Fprintf(&b, "        flow:\n          name: %s\n          at: %s\n", c.ToFlow, c.ToFlowAt)
			default:
				fmt.Fprintf(&b, "        processor:\n          name: %s\n", c.ToProc)
			}
		}
	}
	wr("request", f.Req)
	wr("response", f.Resp)
	return b.String()
}

// sortedKeys is used wherever a map is ranged so that the harness itself stays
// deterministic.
func sortedKeys[V any](m map[string]V) []string {
	ks := make([]string, 0, len(m))
	for k := range m {
		ks = append(ks, k)
	}
	sort.Strings(ks)
	return ks
}

func newShared() publictypes.SharedStateI[[]byte] { return lunarContext.NewMemoryState[[]byte]() }
