package scen

import (
	"context"
	"fmt"
	"strings"
	"time"

	contextmanager "lunar/toolkit-core/context-manager"

	"verifsim/kernel"
)

// C02 — concurrency quotas bound in-flight requests and always free their
// slots. Real streams engine, concurrent quota strategy with its GC goroutine,
// fake cluster liveness. DESIGN.md section 4, C02.

func init() { register(&Scenario{ID: "C02", Run: runC02}) }

type fakeLiveness struct{ out bool }

func (f *fakeLiveness) GetInstanceID() string          { return "gw1" }
func (f *fakeLiveness) IsPartOfCluster(id string) bool { return !(f.out && id == "gw1") }
func (f *fakeLiveness) GetPeerIDs() []string           { return []string{"gw1"} }
func (f *fakeLiveness) Stop()                          {}

type c02txn struct {
	id        string
	level     int // 0 = child URL (passes child+parent), 1 = parent URL
	admitted  bool
	admitSeq  uint64
	admitT    time.Duration
	endInvSeq uint64 // sequence number at which its end event was invoked (0 = none)
	ended     bool
	abandoned bool
	uncertain bool // instance-left fault: may have been collected
	reused    bool // its id was given to a later transaction
	noReuse   bool // a duplicate end for it is (or was) under way
	failReq   bool // a request-side processor of a user flow fails for it (injected)
}

func runC02(s *kernel.Sim) {
	tp := s.Tape
	maxC := int64(tp.Range(1, 3))
	expS := tp.Range(2, 5)
	gcS := tp.Range(1, 2)
	withParent := tp.Chance(1, 3)
	maxP := int64(tp.Range(1, 3))
	// the internal limit below the concurrency parent is a (never exhausted) fixed
	// window in a third of the parent runs: its requests hold slots of the parent only
	childFixed := withParent && tp.Chance(1, 2)
	if childFixed {
		maxC = 100000
	}
	// the parent's filter covers the internal limit's URL (a.com/* above a.com/c), as
	// an internal limit that refines its parent does; always so for a fixed-window
	// child, whose own system flow has no release step: the parent's has
	parentWild := childFixed || (withParent && tp.Chance(1, 2))
	s.Knobs["parent_filter_covers_child"] = parentWild
	parentURL := "a.com/p"
	if parentWild {
		parentURL = "a.com/*"
	}
	withEarlyFlow := tp.Chance(1, 3)
	// a second, never exhausted quota (a rate limit) on the same URL: 0 none,
	// 1 only defined (its system flow still counts every request), 2 checked by a
	// Limiter before the concurrency limit, 3 checked after it
	withRate := 0
	if tp.Chance(1, 3) {
		withRate = 1 + tp.Choose(3)
	}
	nGroups := tp.Range(3, 12)
	concP := tp.Choose(4)
	siteOn, density := lockSites(tp)
	E := time.Duration(expS)*time.Second + 10*time.Millisecond
	G := time.Duration(gcS) * time.Second
	s.Knobs["max"], s.Knobs["exp_s"], s.Knobs["gc_s"] = maxC, expS, gcS
	s.Knobs["parent_max"], s.Knobs["early_flow"], s.Knobs["lock_sites"] = map[bool]int64{true: maxP, false: 0}[withParent], withEarlyFlow, density
	s.Knobs["child_is_fixed_window"] = childFixed
	s.Knobs["rate_quota"] = []string{"none", "defined", "limiter-first", "limiter-second"}[withRate]

	live := &fakeLiveness{}
	ctx, cancel := context.WithCancel(context.Background())
	_ = cancel
	contextmanager.Get().WithContext(ctx).WithClusterLiveness(live)

	// a quarter of the runs without a parent: the quota's filter has a header condition.
	// Requests carry the header; responses may carry a header of the same name with
	// another value (a provider echoing or rewriting it) - the slot comes back all the same
	hdrFilter := !withParent && tp.Chance(1, 4)
	s.Knobs["quota_filter_has_a_header_condition"] = hdrFilter
	var q strings.Builder
	conc := func(id, url string, max int64, parent string) {
		fmt.Fprintf(&q, "  - id: %s\n", id)
		if parent != "" {
			fmt.Fprintf(&q, "    parent_id: %s\n", parent)
		}
		hf := ""
		if hdrFilter && id == "qc" {
			// the quota is for the calls of one tenant: its filter asks for a request header
			hf = "      headers:\n        - key: x-t\n          value: a\n"
		}
		fmt.Fprintf(&q, "    filter:\n      url: %s\n%s    strategy:\n      concurrent:\n        max_request_count: %d\n        request_expiration_sec: %d\n        gc_interval_sec: %d\n",
			url, hf, max, expS, gcS)
	}
	files := map[string]string{}
	rate := func() {
		if withRate > 0 { // one quota file per host
			q.WriteString("  - id: qr\n    filter:\n      url: a.com/c\n    strategy:\n      fixed_window:\n        max: 100000\n        interval: 1\n        interval_unit: minute\n")
		}
	}
	if withParent {
		q.WriteString("quotas:\n")
		conc("qp", parentURL, maxP, "")
		rate()
		q.WriteString("internal_limits:\n")
		if childFixed {
			q.WriteString("  - id: qc\n    parent_id: qp\n    filter:\n      url: a.com/c\n    strategy:\n      fixed_window:\n        max: 100000\n        interval: 1\n        interval_unit: minute\n")
		} else {
			conc("qc", "a.com/c", maxC, "qp")
		}
		files["flows/fp.yaml"] = limiterFlow("fp", "a.com/p", "qp").YAML()
	} else {
		q.WriteString("quotas:\n")
		if withRate == 2 {
			rate() // declared before the concurrency quota
		}
		conc("qc", "a.com/c", maxC, "")
		if withRate != 2 {
			rate()
		}
	}
	files["quotas/quota.yaml"] = q.String()
	files["flows/fc.yaml"] = limiterFlow("fc", "a.com/c", "qc").YAML()
	// a third of the runs load one more flow whose response direction has a processor
	// of its own; the simulator can make it fail for one response (fault point
	// proc.execute): the response walk is aborted before the quota's system end flow
	// releases the slot, and the proxy's failure report that follows has to
	withRespFlow := tp.Chance(1, 3)
	s.Knobs["flow_with_response_processor"] = withRespFlow
	if withRespFlow {
		files["flows/fr.yaml"] = flowDef{
			Name: "fr", URL: []string{"a.com/*", "a.com/c"}[tp.Choose(2)], // around the quota's own URL, or on it
			Procs: []procDef{{Key: "rf", Type: "Filter", Params: [][2]string{{"header", "x-never=1"}}},
				{Key: "qf", Type: "Filter", Params: [][2]string{{"header", "x-never=1"}}}},
			Req: []connDef{{FromStream: "start", ToProc: "qf"}, {FromProc: "qf", Cond: "hit", ToStream: "end"},
				{FromProc: "qf", Cond: "miss", ToStream: "end"}},
			Resp: []connDef{{FromStream: "start", ToProc: "rf"}, {FromProc: "rf", Cond: "hit", ToStream: "end"},
				{FromProc: "rf", Cond: "miss", ToStream: "end"}},
		}.YAML()
	}
	failResp := map[string]bool{}
	// the same on the request side: a processor of the user flow fails after the quota
	// has admitted the transaction. The gateway is fail-open - the call goes to the
	// provider all the same - so the transaction is in flight and keeps its slot
	failReqM := map[string]bool{}
	added := map[string]bool{} // transaction ids the concurrency quota has taken into its set
	s.OnEvent = func(kind string, a []string) {
		if kind == "cq.add" && len(a) >= 2 {
			added[a[1]] = true
		}
	}
	s.FaultOn = func(point string, a []string) error {
		if point == "proc.execute" && len(a) == 4 && a[1] == "qf" && failReqM[a[3]] {
			delete(failReqM, a[3])
			s.FaultFired("request_processor_failed_after_admission")
			return fmt.Errorf("injected failure of processor %s", a[1])
		}
		if point == "proc.execute" && len(a) == 4 && a[1] == "rf" && failResp[a[3]] {
			delete(failResp, a[3])
			s.FaultFired("response_processor_failed")
			return fmt.Errorf("injected failure of processor %s", a[1])
		}
		return nil
	}
	if withRate >= 2 {
		first, second := "qr", "qc"
		if withRate == 3 {
			first, second = "qc", "qr"
		}
		files["flows/fc.yaml"] = flowDef{
			Name: "fc", URL: "a.com/c",
			Procs: []procDef{
				{Key: "lim1", Type: "Limiter", Params: [][2]string{{"quota_id", first}}},
				{Key: "lim2", Type: "Limiter", Params: [][2]string{{"quota_id", second}}},
				{Key: "gen", Type: "GenerateResponse", Params: [][2]string{{"status", "429"}, {"body", "limited"}}},
			},
			Req: []connDef{
				{FromStream: "start", ToProc: "lim1"},
				{FromProc: "lim1", Cond: "below_limit", ToProc: "lim2"},
				{FromProc: "lim1", Cond: "above_limit", ToProc: "gen"},
				{FromProc: "lim2", Cond: "below_limit", ToStream: "end"},
				{FromProc: "lim2", Cond: "above_limit", ToProc: "gen"},
			},
			Resp: []connDef{{FromProc: "gen", ToStream: "end"}},
		}.YAML()
	}
	if withEarlyFlow {
		files["flows/fe.yaml"] = flowDef{
			Name: "fe", URL: "a.com/c",
			Procs: []procDef{
				{Key: "flt", Type: "Filter", Params: [][2]string{{"header", "x-early=1"}}},
				{Key: "deny", Type: "GenerateResponse", Params: [][2]string{{"status", "403"}, {"body", "early"}}},
			},
			Req: []connDef{
				{FromStream: "start", ToProc: "flt"},
				{FromProc: "flt", Cond: "hit", ToProc: "deny"},
				{FromProc: "flt", Cond: "miss", ToStream: "end"},
			},
			Resp: []connDef{{FromProc: "deny", ToStream: "end"}},
		}.YAML()
	}
	env, err := newEngine(s, files)
	if err != nil {
		s.HarnessErr = "engine rejected generated C02 configuration: " + err.Error()
		return
	}
	s.LogEngineEvents = false // their mutual order depends on engine-internal map iteration
	inGroup := false
	// In a third of the runs the quota's own expiry-GC goroutine is a schedulable task:
	// when the clock stops exactly on one of its ticks it parks at its lock sites, and
	// the operations of that instant interleave with the GC pass. It is never held while
	// the clock moves (no stall), and it runs on before the next clock step.
	bgYield := tp.Chance(1, 3)
	bgOn := false
	s.Knobs["gc_goroutine_schedulable"] = bgYield
	s.YieldOn = func(point string, a []string, harness bool) bool {
		if !harness {
			return bgYield && bgOn && isLockPoint(point)
		}
		return inGroup && isLockPoint(point) && siteOn(a[0])
	}
	drainBG := func() {
		for i := 0; i < 500; i++ {
			var bg *kernel.Task
			for _, t := range s.ParkedTasks() {
				if !t.Harness {
					bg = t
					break
				}
			}
			if bg == nil {
				return
			}
			s.Resume(bg)
		}
	}

	var txns []*c02txn
	n := 0
	simLocks := tp.Chance(1, 4)
	s.Knobs["simulated_blocking"] = simLocks
	reuseIDs := tp.Chance(1, 3)
	s.Knobs["request_ids_reused"] = reuseIDs
	path := func(level int) string { return map[int]string{0: "/c", 1: "/p"}[level] }
	// holders returns how many admitted transactions certainly / possibly hold a
	// slot of the given quota level at instant `now` as of sequence point `seq`.
	holders := func(level int, now time.Duration, seq uint64, except *c02txn) (must, may int64) {
		for _, t := range txns {
			if t == except || !t.admitted || t.admitSeq > seq {
				continue
			}
			if !(t.level == level || (level == 1 && t.level == 0 && withParent)) {
				continue
			}
			if t.ended {
				continue
			}
			if t.endInvSeq != 0 {
				may++ // end event invoked, not yet returned
				continue
			}
			exp := t.admitT + E
			switch {
			case t.uncertain:
				if now < exp+G+time.Second {
					may++
				}
			case now < exp:
				must++
				may++
			case now < exp+G+time.Second:
				may++
			}
		}
		return
	}
	limitOf := func(level int) int64 {
		if level == 1 {
			return maxP
		}
		return maxC
	}
	doReq := func(t *c02txn, early bool) {
		h := map[string]string{}
		if early {
			h["x-early"] = "1"
		}
		if hdrFilter {
			h["x-t"] = "a"
		}
		s.Event("request", t.id, path(t.level))
		if t.failReq {
			failReqM[t.id] = true
			delete(added, t.id)
		}
		out := env.doRequest(reqMsg(t.id, "GET", "a.com", path(t.level), h))
		now, seq := s.Now(), s.Seq()
		failed := t.failReq && !failReqM[t.id]
		delete(failReqM, t.id)
		if out.Err != nil && !failed {
			s.Violate("R1", "execute-error", "ExecuteFlow(request %s) returned an error: %v", t.id, out.Err)
			return
		}
		if failed {
			s.Event("request_processor_failed", t.id, fmt.Sprint(added[t.id]))
			if !added[t.id] || out.Early {
				s.Nontrivial()
				return // it never got a slot
			}
		}
		if !out.Early {
			t.admitted, t.admitSeq, t.admitT = true, seq+1, now
			s.Rule("R1")
			levelsHit := []int{t.level}
			if t.level == 0 && withParent {
				levelsHit = append(levelsHit, 1)
			}
			for _, lv := range levelsHit {
				must, _ := holders(lv, now, seq, t)
				if must+1 > limitOf(lv) {
					s.Violate("R1", "in-flight>max", "%s admitted at %v while %d admitted transactions certainly still hold a slot of the %s quota (max %d)",
						t.id, now, must, map[int]string{0: "child", 1: "parent"}[lv], limitOf(lv))
				}
			}
		} else {
			s.Nontrivial()
		}
		s.Event("verdict", t.id, fmt.Sprintf("early=%v status=%d", out.Early, out.Status))
	}
	endTxn := func(t *c02txn, kind int) {
		t.endInvSeq = s.Seq() + 1
		switch kind {
		case 0:
			s.Event("response", t.id)
			var rh map[string]string
			if hdrFilter {
				if v := []string{"", "a", "b", "a; v=2"}[tp.Choose(4)]; v != "" {
					rh = map[string]string{"x-t": v}
				}
			}
			r := env.doResponse(t.id, "GET", "a.com", path(t.level), 200, rh)
			if r.Err != nil {
				s.Violate("R2", "execute-error", "ExecuteFlow(response %s) returned an error: %v", t.id, r.Err)
			}
		case 1:
			s.Event("proxy_error", t.id)
			env.Stream.OnError(t.id)
			s.FaultFired("proxy_error")
		case 2:
			// the response is processed, a user flow's processor fails, the walk is
			// aborted; the proxy then reports the transaction as failed
			s.Event("failed_response_then_proxy_error", t.id)
			failResp[t.id] = true
			r := env.doResponse(t.id, "GET", "a.com", path(t.level), 500, nil)
			if r.Err == nil && !failResp[t.id] {
				s.Violate("R2", "fault-not-reported", "the response walk of %s met an injected processor failure and returned no error", t.id)
			}
			delete(failResp, t.id)
			env.Stream.OnError(t.id)
		}
		t.ended = true
	}
	newTxn := func() *c02txn {
		n++
		lv := 0
		if withParent && tp.Chance(1, 3) {
			lv = 1
		}
		t := &c02txn{id: fmt.Sprintf("t%d", n), level: lv}
		// request ids come from the client (x-lunar-req-id): one run in three re-uses
		// the id of a transaction that is over - ended, or abandoned and certainly
		// collected by the expiry GC - for a new one
		if reuseIDs && tp.Chance(1, 3) {
			now := s.Now()
			var over []*c02txn
			for _, o := range txns {
				if o.level != lv || o.reused || o.noReuse || o.uncertain || !o.admitted {
					continue
				}
				if o.ended || (o.abandoned && o.endInvSeq == 0 && now > o.admitT+E+G+2*time.Second) {
					over = append(over, o)
				}
			}
			if len(over) > 0 {
				o := over[tp.Choose(len(over))]
				o.reused = true
				t.id = o.id
				s.FaultFired("request_id_reused_after_its_transaction_was_over")
			}
		}
		txns = append(txns, t)
		return t
	}
	// probe measures free capacity of a level by admitting fresh transactions
	// until the first refusal, then ends them by responses.
	probe := func(level int, rule string) {
		now, seq := s.Now(), s.Seq()
		must, may := holders(level, now, seq, nil)
		hi, lo := limitOf(level)-must, limitOf(level)-may
		if level == 0 && withParent {
			pm, pM := holders(1, now, seq, nil)
			if maxP-pm < hi {
				hi = maxP - pm
			}
			if maxP-pM < lo {
				lo = maxP - pM
			}
		}
		if lo < 0 {
			lo = 0
		}
		if hi < 0 {
			hi = 0
		}
		var ps []*c02txn
		got := int64(0)
		bound := limitOf(level)
		if level == 0 && withParent && maxP < bound {
			bound = maxP
		}
		for i := int64(0); i <= bound+1; i++ {
			n++
			t := &c02txn{id: fmt.Sprintf("p%d", n), level: level}
			txns = append(txns, t)
			doReq(t, false)
			if s.Failed() {
				return
			}
			if !t.admitted {
				break
			}
			ps = append(ps, t)
			got++
		}
		s.Rule(rule)
		if got > hi {
			s.Violate("R2", "capacity-too-large", "probe at %v admitted %d fresh transactions on level %d although only %d slots can be free (max minus transactions that certainly hold)", now, got, level, hi)
		}
		if got < lo {
			sig := "slot-leaked"
			s.Violate(rule, sig, "probe at %v admitted only %d fresh transactions on level %d although at least %d slots must be free (a slot was not given back)", now, got, level, lo)
		}
		for _, t := range ps {
			endTxn(t, 0)
		}
		s.State(fmt.Sprintf("must%d/may%d/got%d", must, may, got))
	}

	for g := 0; g < nGroups && !s.Failed(); g++ {
		// clock move
		now := s.Now()
		targets := []time.Duration{now + time.Microsecond, now + time.Duration(1+tp.Choose(1500))*time.Millisecond}
		for _, t := range txns {
			if t.admitted && !t.ended {
				e := t.admitT + E
				for _, c := range []time.Duration{e - 1, e, e + 1, e + G, e + G + time.Second} {
					if c > now {
						targets = append(targets, c)
					}
				}
			}
		}
		target := targets[tp.Choose(len(targets))]
		if bgYield {
			drainBG()
			bgOn = false
			if tp.Chance(1, 2) { // stop exactly on a tick of the expiry GC
				if gt := (s.Now()/G + 1 + time.Duration(tp.Choose(3))) * G; gt > s.Now() {
					target = gt
				}
			}
			if target > s.Now()+1 {
				s.SleepUntil(target - 1) // the GC runs freely inside the jump
			}
			bgOn = true
		}
		s.SleepUntil(target)
		if bgYield {
			// the pass has got somewhere by the time the operations arrive: a few of
			// its steps run first, so that they meet it past its read of the set too
			adv := tp.Choose(4)
			for i := 0; ; i++ {
				var bg *kernel.Task
				for _, t := range s.ParkedTasks() {
					if !t.Harness {
						bg = t
						break
					}
				}
				if bg == nil {
					break
				}
				if i == 0 {
					s.FaultFired("operations_interleaved_with_a_gc_pass")
				}
				if i >= adv {
					break
				}
				s.Resume(bg)
			}
		}

		// candidate end events
		var open []*c02txn
		for _, t := range txns {
			if t.admitted && !t.ended && !t.abandoned && t.endInvSeq == 0 {
				open = append(open, t)
			}
		}
		type op struct {
			kind int // 0 request, 1 response, 2 proxy error, 3 duplicate end
			t    *c02txn
			e    bool
		}
		var ops []op
		k := 1
		if concP > 0 && tp.Chance(concP, 6) {
			k = tp.Range(2, 4)
		}
		used := map[*c02txn]bool{}
		for i := 0; i < k; i++ {
			wFail := 0
			if withRespFlow {
				wFail = 2
			}
			switch c := tp.Weighted([]int{4, 3, 1, 1, 1, 1, 1, wFail}); {
			case c == 7 && len(open) > 0:
				t := open[tp.Choose(len(open))]
				if used[t] {
					continue
				}
				used[t] = true
				ops = append(ops, op{4, t, false})
			case c == 6 && len(open) > 0:
				// the response is processed while the proxy reports the same transaction
				// as failed: two releases of one slot that overlap
				t := open[tp.Choose(len(open))]
				if used[t] {
					continue
				}
				used[t] = true
				ops = append(ops, op{1, t, false}, op{2, t, false})
				s.FaultFired("response_and_proxy_error_overlap")
			case c == 0 || len(open) == 0:
				nt := newTxn()
				nt.failReq = withRespFlow && !withParent && !childFixed && tp.Chance(1, 6)
				ops = append(ops, op{0, nt, withEarlyFlow && tp.Chance(1, 3)})
			case c == 1 || c == 2:
				t := open[tp.Choose(len(open))]
				if used[t] {
					continue
				}
				used[t] = true
				ops = append(ops, op{c, t, false})
			case c == 3: // abandon: nothing ever follows
				t := open[tp.Choose(len(open))]
				if !used[t] {
					t.abandoned = true
					used[t] = true
					s.FaultFired("abandon")
					s.Event("abandon", t.id)
				}
			case c == 4: // duplicate end of an already ended transaction
				var done []*c02txn
				for _, t := range txns {
					if t.ended && !t.reused { // an id in use again belongs to the new transaction
						done = append(done, t)
					}
				}
				if len(done) > 0 {
					d := done[tp.Choose(len(done))]
					d.noReuse = true
					ops = append(ops, op{3, d, false})
				}
			case c == 5: // the instance drops out of the cluster for one GC round
				if !live.out && tp.Chance(1, 4) {
					live.out = true
					s.FaultFired("instance_left_cluster")
					s.Event("instance_left")
					for _, t := range txns {
						if t.admitted && !t.ended {
							t.uncertain = true
						}
					}
					s.Sleep(G + time.Millisecond)
					live.out = false
				}
			}
		}
		run := func(o op) {
			switch o.kind {
			case 0:
				doReq(o.t, o.e)
			case 1:
				endTxn(o.t, 0)
			case 2:
				endTxn(o.t, 1)
			case 4:
				endTxn(o.t, 2)
			case 3:
				s.FaultFired("duplicate_end")
				s.Event("duplicate_end", o.t.id)
				if tp.Choose(2) == 0 {
					env.doResponse(o.t.id, "GET", "a.com", path(o.t.level), 200, nil)
				} else {
					env.Stream.OnError(o.t.id)
				}
			}
		}
		if len(ops) <= 1 {
			for _, o := range ops {
				run(o)
			}
		} else {
			inGroup = true
			// a quarter of the runs simulate blocking in their concurrent groups
			// (kernel/simlock.go): operations are parked inside critical sections too, and
			// one that cannot get a lock waits for it as a parked task
			s.SimLocks = simLocks
			for i, o := range ops {
				o := o
				s.Spawn(fmt.Sprintf("g%d.%d", g, i), func() { run(o) })
			}
			for steps := 0; steps < 5000; steps++ {
				p := s.ParkedTasks()
				if len(p) == 0 {
					break
				}
				s.Resume(p[tp.Choose(len(p))])
			}
			inGroup = false
			if simLocks {
				s.SettleLocks()
				s.Rule("R4")
				if dead, desc := s.Deadlocked(0); dead {
					s.Violate("R4", "deadlock", "operations of one concurrent group: every live task waits for a lock and none of them can be released: %s", desc)
					return
				}
				s.SimLocks = false
			}
			s.FaultFired("concurrent_group")
		}
		if s.Failed() {
			return
		}
		if tp.Chance(1, 3) {
			if bgYield {
				drainBG()
			}
			probe(tp.Choose(map[bool]int{true: 2, false: 1}[withParent]), "R2")
		}
	}
	if s.Failed() {
		return
	}
	// closing act (half of the runs with a schedulable GC): everything expires and the
	// sets are left empty, usually one more transaction comes and goes, then one last
	// request arrives while the GC pass over the empty set is somewhere in the middle,
	// and is abandoned - its slot must still come back
	if bgYield && tp.Chance(1, 2) {
		bgOn = false
		drainBG()
		s.Sleep(E + G + 2*time.Second)
		if tp.Chance(2, 3) { // one transaction comes and goes since the last pass
			t0 := newTxn()
			doReq(t0, false)
			if t0.admitted && !s.Failed() {
				endTxn(t0, 0)
			}
			if s.Failed() {
				return
			}
		}
		gt := (s.Now()/G + 1) * G
		s.SleepUntil(gt - 1)
		bgOn = true
		s.SleepUntil(gt)
		adv := tp.Choose(8)
		for i := 0; i < adv; i++ {
			var bg *kernel.Task
			for _, t := range s.ParkedTasks() {
				if !t.Harness {
					bg = t
					break
				}
			}
			if bg == nil {
				break
			}
			s.Resume(bg)
		}
		t := newTxn()
		doReq(t, false)
		if t.admitted {
			t.abandoned = true
			s.FaultFired("abandon")
			s.FaultFired("last_request_met_an_idle_gc_pass")
			s.Event("abandon", t.id)
		}
		if s.Failed() {
			return
		}
	}
	// settle: every open transaction expires, one more GC round passes
	bgOn = false
	drainBG()
	s.Sleep(E + G + 2*time.Second)
	probe(0, "R3")
	if withParent && !s.Failed() {
		probe(1, "R3")
	}
}
