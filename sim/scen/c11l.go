package scen

import (
	"fmt"
	"os"
	"path/filepath"
	"time"

	"lunar/engine/config"

	"verifsim/kernel"
)

// C11L - the policies accessor with simulated blocking. Transaction lookups
// (first seen and again for the response), reloads and fail-safe reverts run as
// tasks that take their locks through the simulator (Sim.SimLocks): they are
// parked inside critical sections, block on each other's locks, and the two vacuum
// goroutines join in whenever they meet a held lock. Judged on liveness: every
// lookup and every configuration change returns, no deadlock; and on the pin
// itself: a transaction's second lookup inside the retention period names the
// version of its first. DESIGN.md section 4, C11.

func init() { register(&Scenario{ID: "C11L", Run: runC11L}) }

func runC11L(s *kernel.Sim) {
	tp := s.Tape
	nOps := tp.Range(4, 16)
	s.Knobs["ops"] = nOps
	s.LogEngineEvents = false
	dir := runTmp(s)
	polPath := filepath.Join(dir, "policies.yaml")
	os.Setenv("LUNAR_PROXY_POLICIES_CONFIG", polPath)
	os.Setenv("LUNAR_PROXY_CONFIG_DIR", dir)
	installHAProxy()
	os.WriteFile(polPath, []byte(c11Policies(0)), 0o644)
	res, err := config.BuildInitialFromFile()
	if err != nil {
		s.HarnessErr = "BuildInitialFromFile: " + err.Error()
		return
	}
	acc := res.Accessor
	s.SimLocks = true
	settling := false
	s.YieldOn = func(point string, a []string, harness bool) bool {
		return !settling && harness && isLockPoint(point)
	}
	type op struct {
		name string
		done bool
	}
	var ops []*op
	first := map[string]string{} // transaction -> marker of its first lookup
	firstAt := map[string]time.Duration{}
	busy := map[string]bool{} // a lookup of this transaction is under way
	marker := 0
	nTxn := 0
	for step := 0; step < 500 && !s.Failed(); step++ {
		parked := s.ParkedTasks()
		w := []int{0, 0, 1}
		if len(ops) < nOps {
			w[0] = 2
		}
		if len(parked) > 0 {
			w[1] = 5
		}
		if len(ops) >= nOps && len(parked) == 0 {
			break
		}
		switch tp.Weighted(w) {
		case 0:
			o := &op{name: fmt.Sprintf("op%d", len(ops))}
			ops = append(ops, o)
			switch tp.Weighted([]int{5, 2, 1}) {
			case 0: // a lookup: a new transaction, or the response of an earlier one
				id := fmt.Sprintf("t%d", nTxn)
				// the response of a transaction comes after its request was processed:
				// a second lookup only for a transaction whose first one has returned
				var seen []string
				for i := 0; i < nTxn; i++ {
					if _, ok := first[fmt.Sprintf("t%d", i)]; ok && !busy[fmt.Sprintf("t%d", i)] {
						seen = append(seen, fmt.Sprintf("t%d", i))
					}
				}
				if len(seen) > 0 && tp.Chance(1, 2) {
					id = seen[tp.Choose(len(seen))]
				} else {
					nTxn++
				}
				busy[id] = true
				started := s.Now() // the pin is made at some instant after this one
				s.Spawn(o.name, func() {
					m := c11Marker(acc.GetTxnPoliciesData(config.TxnID(id)))
					if f, seen := first[id]; !seen {
						first[id], firstAt[id] = m, started
					} else if s.Now()-firstAt[id] < c11Retention {
						s.Rule("R1")
						if m != f {
							s.Violate("R1", "version-changed-mid-transaction", "transaction %s was first seen with %s and %v later processed with %s", id, f, s.Now()-firstAt[id], m)
						}
					}
					busy[id] = false
					o.done = true
				})
			case 1:
				marker++
				mk := marker
				s.Spawn(o.name, func() {
					os.WriteFile(polPath, []byte(c11Policies(mk)), 0o644)
					_ = acc.ReloadFromFile()
					o.done = true
				})
				s.FaultFired("policy_reload")
			case 2:
				s.Spawn(o.name, func() {
					_ = acc.RevertToDiagnosisFree()
					o.done = true
				})
				s.FaultFired("failsafe_revert")
			}
		case 1:
			s.Resume(parked[tp.Choose(len(parked))])
		case 2:
			s.Sleep([]time.Duration{time.Millisecond, time.Second, 5 * time.Second, 31 * time.Second}[tp.Choose(4)])
		}
		s.State(fmt.Sprintf("p%d", len(s.ParkedTasks())))
	}
	if s.Failed() {
		return
	}
	settling = true
	for round := 0; round < 4; round++ {
		s.SettleLocks()
		s.Sleep(6 * time.Second)
	}
	s.Rule("R5")
	s.Nontrivial()
	s.FaultFired("tasks_parked_inside_critical_sections")
	if dead, desc := s.Deadlocked(6 * time.Second); dead {
		s.Violate("R5", "deadlock", "every live task waits for a lock and none of them can be released: %s", desc)
		return
	}
	s.SettleLocks()
	for _, o := range ops {
		if !o.done {
			s.Violate("R5", "operation-never-returned", "%s has not returned 24 s after the last fault", o.name)
			break
		}
	}
}
