package kernel

import (
	"time"

	"lunar/toolkit-core/verifhook"
)

// Race mode: the harness is built with -race and the Go race detector is the
// invariant monitor. Interleaving must not go through the token scheduler
// (handing a token through channels, or looking a task up in a shared
// registry, would add happens-before edges between tasks and hide every race
// of the engine). Instead every hook delays its caller by a fake-time sleep
// that is a pure function of the seed and of the caller's own arguments and
// per-goroutine counters. Slots are indexed by goroutine id so that no two
// goroutines ever touch the same memory.

const raceSlots = 4096

var (
	raceHeld   [raceSlots]int32
	raceCount  [raceSlots]uint32
	raceSeed   uint64
	raceRoot   uint64
	raceNum    uint64 // sleep with probability raceNum/8
	raceMaxDel uint64
)

func raceHash(parts ...uint64) uint64 {
	h := raceSeed*0x9E3779B97F4A7C15 + 0xcbf29ce484222325
	for _, p := range parts {
		h ^= p
		h *= 1099511628211
		h ^= h >> 29
	}
	return h
}

func strHash(s string) uint64 {
	h := uint64(1469598103934665603)
	for i := 0; i < len(s); i++ {
		h ^= uint64(s[i])
		h *= 1099511628211
	}
	return h
}

func raceYield(gid uint64, point string, site string) {
	i := gid % raceSlots
	if gid == raceRoot || raceHeld[i] > 0 {
		return
	}
	raceCount[i]++
	h := raceHash(strHash(point), strHash(site), uint64(raceCount[i]), i)
	if h%8 < raceNum {
		time.Sleep(time.Duration(1+(h>>8)%raceMaxDel) * time.Microsecond)
	}
}

// InstallRaceHooks replaces the simulator's hooks by the stateless race-mode
// hooks. density is in eighths (0..8); maxDelayUs bounds a single delay.
func InstallRaceHooks(seed uint64, density int, maxDelayUs int) {
	raceSeed, raceRoot, raceNum, raceMaxDel = seed, curGID(), uint64(density), uint64(maxDelayUs)
	verifhook.EventFn = nil
	verifhook.FaultFn = nil
	verifhook.OrderFn = nil
	verifhook.YieldFn = func(point string, args []string) {
		site := ""
		if len(args) > 0 {
			site = args[0]
		}
		raceYield(curGID(), point, site)
	}
	verifhook.AcquireFn = func() { raceHeld[curGID()%raceSlots]++ }
	verifhook.ReleaseFn = func(site string) {
		gid := curGID()
		i := gid % raceSlots
		if raceHeld[i] > 0 {
			raceHeld[i]--
		}
		if raceHeld[i] == 0 {
			raceYield(gid, "unlock", site)
		}
	}
}
