package kernel

import (
	"bytes"
	"fmt"
	"hash/fnv"
	"os"
	"regexp"
	"runtime"
	"runtime/debug"
	"sort"
	"strconv"
	"strings"
	"sync"
	"sync/atomic"
	"testing/synctest"
	"time"

	"lunar/toolkit-core/verifhook"

	"verifsim/proto"
)

type (
	Event      = proto.Event
	Violation  = proto.Violation
	Stats      = proto.Stats
	Result     = proto.Result
	ReplayFile = proto.ReplayFile
)

const (
	stNew = iota
	stRunning
	stParked
	stDone
)

// Task is a schedulable goroutine: a harness actor or an engine background
// goroutine that reached a yield hook.
type Task struct {
	ID      int
	Name    string
	Harness bool
	// Origin is, for a goroutine of the system under test that the scheduler
	// adopted at a yield point, the function the goroutine was started with.
	Origin string
	Point  string
	Args   []string
	gid    uint64
	resume chan struct{}
	state  int
	// Leaked is the number of instrumented locks the task still held when its function returned.
	Leaked int
	// ParkedAt is the fake time at which the task last parked.
	ParkedAt time.Duration
	// StallEnd is the fake time at which the last simulator-imposed stall of
	// this task ended (a stall = time advanced while the task was parked).
	StallEnd time.Duration
	Stalled  bool
	Panic    string
	// simulated blocking (simlock.go)
	blockedOn    uintptr
	blockedWrite bool
	blockedSite  string
	blockEpoch   uint64
}

func (t *Task) Done() bool   { return t.state == stDone }
func (t *Task) Parked() bool { return t.state == stParked }

// Progress is bumped at every scheduler step; the real-time watchdog outside
// the bubble reads it.
var Progress atomic.Int64

type Sim struct {
	Scenario string
	Seed     uint64
	Tape     *Tape
	Start    time.Time
	Knobs    map[string]any
	Events   []Event
	Viol     []Violation
	Stats    Stats
	// YieldOn decides whether a yield point parks the caller in this run.
	YieldOn func(point string, args []string, harness bool) bool
	// FaultOn decides whether a fault point fails; nil error = no fault.
	FaultOn func(point string, args []string) error
	// OrderOn decides an iteration order; nil = engine's own order.
	OrderOn func(point string, names []string) []string
	// OnEvent observes engine events (after they were logged).
	OnEvent func(kind string, args []string)
	// LogEngineEvents=false keeps high-volume engine events out of the log.
	LogEngineEvents bool
	EnginePanic     string // first engine panic caught in a task
	HarnessErr      string // harness trouble (exit 2)

	// mu guards every field below and the logs/statistics above: hooks are
	// called from many goroutines, and even with GOMAXPROCS=1 a goroutine can be
	// descheduled inside a map write or an append (allocation, GC assist).
	mu      sync.Mutex
	seq     uint64
	rootGID uint64
	tasks   []*Task
	byGID   map[uint64]*Task
	sigH    uint64
	states  map[string]bool
	bgCount map[string]int
	held    map[uint64]int // instrumented locks held per goroutine
	// SimLocks: the simulator takes instrumented locks cooperatively and simulates
	// blocking (simlock.go); tasks may then be parked inside critical sections.
	SimLocks  bool
	pendingW  map[uintptr]int // writers parked on a mutex
	lockEpoch uint64          // bumped at every acquisition and release
}

func NewSim(scen string, seed uint64, tape *Tape) *Sim {
	s := &Sim{
		Scenario: scen, Seed: seed, Tape: tape, Start: time.Now(),
		Knobs: map[string]any{}, byGID: map[uint64]*Task{},
		states: map[string]bool{}, bgCount: map[string]int{}, held: map[uint64]int{},
		pendingW: map[uintptr]int{}, LogEngineEvents: true,
	}
	s.Stats.Faults = map[string]int{}
	s.Stats.Yields = map[string]int{}
	s.Stats.Probes = map[string]int{}
	s.Stats.Rules = map[string]int{}
	s.rootGID = curGID()
	s.sigH = 1469598103934665603
	verifhook.YieldFn = s.hookYield
	verifhook.FaultFn = s.hookFault
	verifhook.EventFn = s.hookEvent
	verifhook.OrderFn = s.hookOrder
	verifhook.AcquireFn = s.hookAcquire
	verifhook.ReleaseFn = s.hookRelease
	verifhook.SimLockFn = s.hookSimLock
	return s
}

// Detach removes the hooks (batch mode, between runs).
func (s *Sim) Detach() {
	verifhook.YieldFn = nil
	verifhook.FaultFn = nil
	verifhook.EventFn = nil
	verifhook.OrderFn = nil
	verifhook.AcquireFn = nil
	verifhook.ReleaseFn = nil
	verifhook.SimLockFn = nil
}

func curGID() uint64 {
	var buf [64]byte
	n := runtime.Stack(buf[:], false)
	b := buf[:n]
	b = bytes.TrimPrefix(b, []byte("goroutine "))
	i := bytes.IndexByte(b, ' ')
	id, _ := strconv.ParseUint(string(b[:i]), 10, 64)
	return id
}

func (s *Sim) Now() time.Duration { return time.Since(s.Start) }

var ptrRe = regexp.MustCompile(`0x[0-9a-f]{6,}`)
var tmpRe = regexp.MustCompile(`/[^ :"']*/run-[A-Za-z0-9]+-[0-9]+-[0-9]+`)

// sanitize removes what differs between two executions of the same tape for
// reasons unrelated to behaviour: pointer values and the temporary directory.
func sanitize(x string) string {
	if strings.Contains(x, "0x") {
		x = ptrRe.ReplaceAllString(x, "0xPTR")
	}
	if strings.Contains(x, "/run-") {
		x = tmpRe.ReplaceAllString(x, "$RUN")
	}
	return x
}

func (s *Sim) Event(kind string, a ...string) {
	for i := range a {
		a[i] = sanitize(a[i])
	}
	now := int64(s.Now())
	s.mu.Lock()
	s.seq++
	s.Events = append(s.Events, Event{Seq: s.seq, T: now, Kind: kind, A: a})
	s.mu.Unlock()
}

func (s *Sim) Seq() uint64 {
	s.mu.Lock()
	defer s.mu.Unlock()
	return s.seq
}

func (s *Sim) Violate(rule, sig, format string, a ...any) {
	d := sanitize(fmt.Sprintf(format, a...))
	s.mu.Lock()
	s.Viol = append(s.Viol, Violation{Rule: rule, Sig: sig, Detail: d})
	s.mu.Unlock()
	s.Event("VIOLATION", rule, sig, d)
}

func (s *Sim) Rule(rule string)    { s.mu.Lock(); s.Stats.Rules[rule]++; s.mu.Unlock() }
func (s *Sim) Probe(name string)   { s.mu.Lock(); s.Stats.Probes[name]++; s.mu.Unlock() }
func (s *Sim) FaultFired(k string) { s.mu.Lock(); s.Stats.Faults[k]++; s.mu.Unlock() }
func (s *Sim) Nontrivial()         { s.mu.Lock(); s.Stats.Nontrivial = true; s.mu.Unlock() }
func (s *Sim) Failed() bool {
	s.mu.Lock()
	defer s.mu.Unlock()
	return len(s.Viol) > 0 || s.EnginePanic != "" || s.HarnessErr != ""
}
func (s *Sim) State(abstract string) {
	abstract = sanitize(abstract)
	s.mu.Lock()
	s.states[abstract] = true
	s.mu.Unlock()
}

// MixSig folds scenario-level choices into the run signature.
func (s *Sim) MixSig(parts ...string) { s.mixSig(parts...) }

func (s *Sim) mixSig(parts ...string) {
	s.mu.Lock()
	defer s.mu.Unlock()
	for _, p := range parts {
		for i := 0; i < len(p); i++ {
			s.sigH ^= uint64(p[i])
			s.sigH *= 1099511628211
		}
		s.sigH ^= 0xff
		s.sigH *= 1099511628211
	}
}

// ---- hooks -----------------------------------------------------------------

func (s *Sim) hookAcquire() {
	gid := curGID()
	s.mu.Lock()
	s.held[gid]++
	s.mu.Unlock()
}

func (s *Sim) hookRelease(site string) {
	gid := curGID()
	s.mu.Lock()
	s.lockEpoch++
	if n := s.held[gid]; n > 1 {
		s.held[gid] = n - 1
		s.mu.Unlock()
		if s.SimLocks {
			s.yieldAt(gid, "unlock", []string{site})
		}
		return
	}
	delete(s.held, gid)
	s.mu.Unlock()
	s.yieldAt(gid, "unlock", []string{site})
}

func (s *Sim) hookYield(point string, args []string) { s.yieldAt(curGID(), point, args) }

// LeakedLocks describes instrumented locks that are still held although nobody is
// inside an operation any more: by tasks whose function has returned, and by the
// calling goroutine (the scenario, between two operations). "" if there are none.
func (s *Sim) LeakedLocks() string {
	s.mu.Lock()
	defer s.mu.Unlock()
	var out []string
	for _, t := range s.tasks {
		if t.state == stDone && t.Leaked > 0 {
			out = append(out, fmt.Sprintf("task %s returned holding %d lock(s)", t.Name, t.Leaked))
		}
	}
	if n := s.held[curGID()]; n > 0 {
		out = append(out, fmt.Sprintf("the operation just made returned holding %d lock(s)", n))
	}
	return strings.Join(out, "; ")
}

// yieldAt parks the calling goroutine if the run's policy says so. A goroutine
// that holds an instrumented lock is never parked (another task blocking on
// that mutex would not be durably blocked and the bubble could not settle).
var traceYields = os.Getenv("VERIF_TRACE_YIELDS") != ""

func (s *Sim) yieldAt(gid uint64, point string, args []string) {
	if traceYields { // debugging aid: every hook crossing, parked or not
		s.Event("trace", fmt.Sprint(gid), point, strings.Join(args, " "))
	}
	s.mu.Lock()
	if gid == s.rootGID || (s.held[gid] > 0 && !s.SimLocks) {
		s.mu.Unlock()
		return
	}
	t := s.byGID[gid]
	s.mu.Unlock()
	harness := t != nil && t.Harness
	if s.YieldOn == nil || !s.YieldOn(point, args, harness) {
		return
	}
	if s.SimLocks {
		s.mu.Lock()
		if s.held[gid] > 0 {
			s.Stats.Probes["task_parked_while_holding_a_lock"]++
		}
		s.mu.Unlock()
	}
	if t == nil {
		s.mu.Lock()
		s.bgCount[point]++
		// named after what it runs and when it was spawned (goroutine ids are handed
		// out in spawn order), not after the order in which goroutines first parked
		origin := entryFunc(string(debug.Stack()))
		short := origin
		if i := strings.LastIndex(short, "/"); i >= 0 {
			short = short[i+1:]
		}
		t = &Task{ID: len(s.tasks), Name: fmt.Sprintf("bg:%s+%d", short, int64(gid)-int64(s.rootGID)),
			gid: gid, resume: make(chan struct{}), Origin: origin}
		s.tasks = append(s.tasks, t)
		s.byGID[gid] = t
		s.mu.Unlock()
	}
	s.park(t, point, args)
}

func (s *Sim) park(t *Task, point string, args []string) {
	now := s.Now()
	s.mu.Lock()
	t.Point, t.Args = point, args
	t.state = stParked
	t.ParkedAt = now
	s.Stats.Yields[point]++
	s.mu.Unlock()
	<-t.resume
	s.mu.Lock()
	t.state = stRunning
	s.mu.Unlock()
}

func (s *Sim) hookFault(point string, args []string) error {
	// a fault point is also a scheduling point (no lock is held around I/O)
	s.yieldAt(curGID(), "fault."+point, args)
	if s.FaultOn == nil {
		return nil
	}
	return s.FaultOn(point, args)
}

func (s *Sim) hookEvent(kind string, args []string) {
	if strings.HasPrefix(kind, "probe.") {
		s.Probe(kind[6:])
	}
	if s.LogEngineEvents {
		s.Event(kind, args...)
	}
	if s.OnEvent != nil {
		s.OnEvent(kind, args)
	}
}

func (s *Sim) hookOrder(point string, names []string) []string {
	if s.OrderOn == nil {
		// default: a fixed (sorted) order instead of the runtime's map iteration
		// order, so that a run is a function of its tape; scenarios that explore
		// the load order install their own OrderOn
		out := append([]string(nil), names...)
		sort.Strings(out)
		return out
	}
	return s.OrderOn(point, names)
}

// ---- tasks -----------------------------------------------------------------

// Spawn starts fn as a harness task; it is parked at "task.start" until the
// scheduler resumes it. Engine panics inside fn are caught and recorded.
func (s *Sim) Spawn(name string, fn func()) *Task {
	s.mu.Lock()
	t := &Task{ID: len(s.tasks), Name: name, Harness: true, resume: make(chan struct{})}
	s.tasks = append(s.tasks, t)
	s.mu.Unlock()
	go func() {
		s.mu.Lock()
		t.gid = curGID()
		s.byGID[t.gid] = t
		s.mu.Unlock()
		defer func() {
			if r := recover(); r != nil {
				st := string(debug.Stack())
				t.Panic = fmt.Sprint(r)
				frame := firstFrame(st)
				if strings.Contains(frame, "lunar/") {
					s.mu.Lock()
					if s.EnginePanic == "" {
						s.EnginePanic = frame + ": " + t.Panic
					}
					s.mu.Unlock()
					s.Event("engine.panic", name, frame, t.Panic)
				} else {
					s.mu.Lock()
					if s.HarnessErr == "" {
						s.HarnessErr = "harness panic in task " + name + ": " + t.Panic + "\n" + st
					}
					s.mu.Unlock()
				}
			}
			s.mu.Lock()
			t.state = stDone
			t.Leaked = s.held[t.gid] // instrumented locks taken and not given back when the task's function returned
			s.mu.Unlock()
		}()
		s.park(t, "task.start", nil)
		fn()
	}()
	synctest.Wait()
	return t
}

// entryFunc returns the function a goroutine was started with (the bottom
// frame of its stack).
func entryFunc(stack string) string {
	last := ""
	for _, l := range strings.Split(stack, "\n") {
		if l == "" || strings.HasPrefix(l, "\t") || strings.HasPrefix(l, "goroutine ") || strings.HasPrefix(l, "created by ") {
			continue
		}
		if i := strings.LastIndexByte(l, '('); i > 0 {
			l = l[:i]
		}
		last = l
	}
	return last
}

// firstFrame returns the first function of a panic stack that is neither
// runtime nor the recover wrapper itself.
func firstFrame(stack string) string {
	lines := strings.Split(stack, "\n")
	seenPanic := false
	for _, l := range lines {
		if strings.HasPrefix(l, "\t") || l == "" || strings.HasPrefix(l, "goroutine ") {
			continue
		}
		if strings.HasPrefix(l, "panic(") {
			seenPanic = true
			continue
		}
		if !seenPanic {
			continue
		}
		if strings.HasPrefix(l, "runtime.") || strings.HasPrefix(l, "runtime/") {
			continue
		}
		if i := strings.LastIndexByte(l, '('); i > 0 {
			l = l[:i]
		}
		return l
	}
	return "unknown"
}

func (s *Sim) Tasks() []*Task { return s.tasks }

// ParkedTasks lists parked tasks in creation order.
func (s *Sim) ParkedTasks() []*Task {
	s.mu.Lock()
	defer s.mu.Unlock()
	var out []*Task
	for _, t := range s.tasks {
		if t.state == stParked {
			out = append(out, t)
		}
	}
	// Adopted engine goroutines were appended in the order of their first park,
	// which depends on how the Go runtime interleaved them before the simulator
	// took over (it differs with the number of Ps at process start). Among
	// themselves they are listed by goroutine id, i.e. in the order in which the
	// engine spawned them; the slots of harness tasks stay where they are.
	var bg []*Task
	for _, t := range out {
		if !t.Harness {
			bg = append(bg, t)
		}
	}
	if len(bg) > 1 {
		sort.Slice(bg, func(i, j int) bool { return bg[i].gid < bg[j].gid })
		k := 0
		for i, t := range out {
			if !t.Harness {
				out[i] = bg[k]
				k++
			}
		}
	}
	return out
}

// Resume lets t run until it parks again, blocks durably or ends.
func (s *Sim) Resume(t *Task) {
	if t.state != stParked {
		return
	}
	Progress.Add(1)
	s.Stats.Steps++
	if t.Stalled {
		t.StallEnd = s.Now()
	}
	// an adopted engine goroutine enters the signature by the function it runs, not by
	// its name: the name carries a goroutine-id offset, which differs between processes
	// (the runtime's own goroutines take ids too)
	who := t.Name
	if !t.Harness {
		who = "bg:" + t.Origin
	}
	s.mixSig("r", who, t.Point)
	t.resume <- struct{}{}
	synctest.Wait()
}

// Settle resumes parked tasks FIFO until none is parked.
func (s *Sim) Settle() {
	for i := 0; i < 10000; i++ {
		p := s.ParkedTasks()
		if len(p) == 0 {
			return
		}
		s.Resume(p[0])
	}
	s.HarnessErr = "Settle: tasks keep parking"
}

// SleepUntil advances the fake clock to the absolute offset d (since start).
// Timers in between fire in order; woken goroutines run until they block or
// park. Tasks that stay parked across the jump are marked stalled.
func (s *Sim) SleepUntil(d time.Duration) {
	now := s.Now()
	if d <= now {
		synctest.Wait()
		return
	}
	Progress.Add(1)
	s.Stats.Steps++
	for _, t := range s.tasks {
		if t.state == stParked && t.Point != "task.start" {
			if !t.Stalled {
				t.Stalled = true
			}
		}
	}
	s.mixSig("c", strconv.FormatInt(int64(d), 10))
	time.Sleep(d - now)
	synctest.Wait()
	for _, t := range s.tasks {
		if t.state == stParked && t.Point != "task.start" && t.ParkedAt < s.Now() {
			t.Stalled = true
			t.StallEnd = s.Now() // still stalled: running maximum
		}
	}
}

func (s *Sim) Sleep(d time.Duration) { s.SleepUntil(s.Now() + d) }

// Finish finalises stats.
func (s *Sim) Finish() {
	s.Stats.SimNs = int64(s.Now())
	h := fnv.New64a()
	fmt.Fprintf(h, "%x", s.sigH)
	s.Stats.Sig = fmt.Sprintf("%016x", s.sigH)
	st := make([]string, 0, len(s.states))
	for k := range s.states {
		st = append(st, k)
	}
	sort.Strings(st)
	if len(st) > 64 {
		st = st[:64]
	}
	s.Stats.States = st
	if s.EnginePanic != "" {
		s.Viol = append(s.Viol, Violation{Rule: "RP", Sig: "panic:" + strings.SplitN(s.EnginePanic, ":", 2)[0],
			Detail: "engine panicked while handling a scenario operation: " + s.EnginePanic})
	}
}
