package kernel

import "verifsim/proto"

func (s *Sim) Result(withEvents bool) Result {
	r := Result{Scenario: s.Scenario, Seed: s.Seed, Tape: s.Tape.Rec, Knobs: s.Knobs,
		Violations: s.Viol, HarnessErr: s.HarnessErr, Stats: s.Stats}
	if withEvents || len(s.Viol) > 0 {
		ev := s.Events
		if len(ev) > 4000 {
			ev = ev[len(ev)-4000:]
		}
		r.Events = ev
	}
	return r
}

func AppendResult(path string, r Result) error { return proto.AppendResult(path, r) }
