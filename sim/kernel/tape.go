// Package kernel is the deterministic-simulation kernel: a choice tape, a
// token scheduler on top of testing/synctest, an event log and result I/O.
package kernel

// Tape is the single source of every decision of a run. In search mode values
// come from a splitmix64 stream seeded by the run seed and are recorded; in
// replay mode they are read from a recorded (possibly shrunk) tape and 0 is
// returned once it is exhausted. Generators are written so that 0 is the
// simplest choice.
type Tape struct {
	state     uint64
	replaying bool
	in        []int
	pos       int
	Rec       []int
}

func NewSeedTape(seed uint64) *Tape {
	return &Tape{state: seed*0x9E3779B97F4A7C15 + 0x1234567}
}

func NewReplayTape(vals []int) *Tape {
	return &Tape{replaying: true, in: vals}
}

func (t *Tape) next64() uint64 {
	t.state += 0x9E3779B97F4A7C15
	z := t.state
	z = (z ^ (z >> 30)) * 0xBF58476D1CE4E5B9
	z = (z ^ (z >> 27)) * 0x94D049BB133111EB
	return z ^ (z >> 31)
}

// Choose returns a value in [0,n). n<=1 returns 0 without consuming the tape.
func (t *Tape) Choose(n int) int {
	if n <= 1 {
		return 0
	}
	var v int
	if t.replaying {
		if t.pos < len(t.in) {
			v = t.in[t.pos]
			t.pos++
			if v < 0 {
				v = -v
			}
			v %= n
		}
	} else {
		v = int(t.next64() % uint64(n))
	}
	t.Rec = append(t.Rec, v)
	return v
}

// Range returns a value in [lo,hi].
func (t *Tape) Range(lo, hi int) int { return lo + t.Choose(hi-lo+1) }

// Chance is true with probability num/den; 0 on the tape means false.
func (t *Tape) Chance(num, den int) bool {
	v := t.Choose(den)
	return v >= den-num
}

// Weighted picks an index with the given weights; index 0 must be the
// simplest alternative (tape value 0 maps to the first non-zero weight).
func (t *Tape) Weighted(w []int) int {
	total := 0
	for _, x := range w {
		total += x
	}
	if total <= 0 {
		return 0
	}
	v := t.Choose(total)
	for i, x := range w {
		if v < x {
			return i
		}
		v -= x
	}
	return len(w) - 1
}

// Perm returns a permutation of 0..n-1; an all-zero tape gives the identity.
func (t *Tape) Perm(n int) []int {
	idx := make([]int, n)
	for i := range idx {
		idx[i] = i
	}
	out := make([]int, 0, n)
	for len(idx) > 0 {
		k := t.Choose(len(idx))
		out = append(out, idx[k])
		idx = append(idx[:k], idx[k+1:]...)
	}
	return out
}
