package kernel

import (
	"fmt"
	"reflect"
	"runtime/debug"
	"sort"
	"strings"
	"sync"
	"time"
)

// Simulated blocking (opt-in per run: Sim.SimLocks).
//
// By default the scheduler never parks a goroutine that holds an instrumented
// lock, because another goroutine blocking on that mutex would not be durably
// blocked and the bubble could not settle. With SimLocks the instrumented code
// lets the simulator take every lock cooperatively: the simulator tries the
// real mutex (TryLock / TryRLock) and, when that fails, parks the caller as a
// task that is "blocked on a lock" and lets it try again whenever the scenario
// resumes it. The real mutex stays the arbiter of who holds it; what the
// simulator adds is sync.RWMutex's rule that a waiting writer shuts out new
// readers (a reader arriving while a writer is parked on that mutex is parked
// too), which is what makes recursive read locking and lock-order inversions
// deadlock. Goroutines may then be parked inside critical sections, and a run in
// which every live task ends up blocked on a lock is a deadlock (Deadlocked).

type lockRef struct {
	id   uintptr
	tryW func() bool
	tryR func() bool
}

type tryLocker interface{ TryLock() bool }
type tryRLocker interface{ TryRLock() bool }

// resolveLock finds the mutex behind the address of the expression a Lock or
// RLock method was called on.
func resolveLock(p any) (lockRef, bool) {
	switch m := p.(type) {
	case *sync.Mutex:
		return lockRef{uintptr(reflect.ValueOf(m).Pointer()), m.TryLock, nil}, true
	case *sync.RWMutex:
		return lockRef{uintptr(reflect.ValueOf(m).Pointer()), m.TryLock, m.TryRLock}, true
	case **sync.Mutex:
		if *m == nil {
			return lockRef{}, false
		}
		return lockRef{uintptr(reflect.ValueOf(*m).Pointer()), (*m).TryLock, nil}, true
	case **sync.RWMutex:
		if *m == nil {
			return lockRef{}, false
		}
		return lockRef{uintptr(reflect.ValueOf(*m).Pointer()), (*m).TryLock, (*m).TryRLock}, true
	}
	// a type that embeds a mutex, or an interface holding one: look for the
	// pointer whose method set has TryLock
	v := reflect.ValueOf(p)
	for i := 0; i < 4 && v.IsValid(); i++ {
		if v.Kind() == reflect.Ptr && !v.IsNil() && v.CanInterface() {
			if w, ok := v.Interface().(tryLocker); ok {
				ref := lockRef{id: v.Pointer(), tryW: w.TryLock}
				if r, ok := v.Interface().(tryRLocker); ok {
					ref.tryR = r.TryRLock
				}
				return ref, true
			}
		}
		if (v.Kind() == reflect.Ptr || v.Kind() == reflect.Interface) && !v.IsNil() {
			v = v.Elem()
			continue
		}
		break
	}
	return lockRef{}, false
}

// hookSimLock implements verifhook.SimLock.
func (s *Sim) hookSimLock(p any, write bool, site string) bool {
	if !s.SimLocks {
		return false
	}
	gid := curGID()
	ref, ok := resolveLock(p)
	if !ok || (!write && ref.tryR == nil) {
		return false
	}
	counted := false
	for {
		s.mu.Lock()
		pend := s.pendingW[ref.id]
		s.mu.Unlock()
		got := false
		if write {
			got = ref.tryW()
		} else if pend == 0 {
			got = ref.tryR()
		}
		if got {
			s.mu.Lock()
			if counted {
				s.pendingW[ref.id]--
			}
			s.lockEpoch++
			if t := s.byGID[gid]; t != nil {
				t.blockedOn = 0
			}
			s.mu.Unlock()
			return true
		}
		if gid == s.rootGID {
			// the scenario's own goroutine cannot be parked; it takes the lock for real
			// (a scenario that simulates blocking drives the engine through tasks only)
			if counted {
				s.mu.Lock()
				s.pendingW[ref.id]--
				s.mu.Unlock()
			}
			return false
		}
		// blocked: park as a task (adopt the goroutine if it is not one yet)
		s.mu.Lock()
		t := s.byGID[gid]
		if t == nil {
			origin := entryFunc(string(debug.Stack()))
			short := origin
			if i := strings.LastIndex(short, "/"); i >= 0 {
				short = short[i+1:]
			}
			t = &Task{ID: len(s.tasks), Name: fmt.Sprintf("bg:%s+%d", short, int64(gid)-int64(s.rootGID)),
				gid: gid, resume: make(chan struct{}), Origin: origin}
			s.tasks = append(s.tasks, t)
			s.byGID[gid] = t
		}
		if write && !counted {
			s.pendingW[ref.id]++
			counted = true
		}
		t.blockedOn, t.blockedWrite, t.blockedSite, t.blockEpoch = ref.id, write, site, s.lockEpoch
		s.Stats.Probes["task_blocked_on_a_lock"]++
		s.mu.Unlock()
		s.park(t, "lock.blocked", []string{site})
	}
}

// SettleLocks resumes parked tasks until none is parked, or until every parked
// task waits for a lock and a full round of retries changed nothing.
func (s *Sim) SettleLocks() {
	for i := 0; i < 20000; i++ {
		p := s.ParkedTasks()
		if len(p) == 0 {
			return
		}
		all := true
		for _, t := range p {
			if !t.Blocked() {
				all = false
				s.Resume(t)
				break
			}
		}
		if !all {
			continue
		}
		s.mu.Lock()
		e0 := s.lockEpoch
		s.mu.Unlock()
		for _, t := range p {
			s.Resume(t)
		}
		s.mu.Lock()
		e1 := s.lockEpoch
		s.mu.Unlock()
		if e1 == e0 {
			return
		}
	}
}

// Blocked reports whether the task is parked waiting for a lock.
func (t *Task) Blocked() bool { return t.state == stParked && t.Point == "lock.blocked" }

// Deadlocked resumes every task that waits for a lock once more and reports
// whether all live tasks are (still) waiting for locks, none of which was
// released in the meantime; time is advanced in between, so that a holder that
// merely sleeps gets its chance. The description names the tasks and sites.
func (s *Sim) Deadlocked(advance time.Duration) (bool, string) {
	if !s.SimLocks {
		return false, ""
	}
	for round := 0; round < 3; round++ {
		var blocked []*Task
		for _, t := range s.ParkedTasks() {
			if !t.Blocked() {
				return false, "" // somebody can run
			}
			blocked = append(blocked, t)
		}
		if len(blocked) < 2 {
			return false, ""
		}
		s.mu.Lock()
		e0 := s.lockEpoch
		s.mu.Unlock()
		for _, t := range blocked {
			s.Resume(t)
		}
		if advance > 0 {
			s.Sleep(advance)
		}
		s.mu.Lock()
		e1 := s.lockEpoch
		s.mu.Unlock()
		if e1 != e0 {
			return false, ""
		}
	}
	var desc []string
	for _, t := range s.ParkedTasks() {
		if !t.Blocked() {
			return false, ""
		}
		kind := "read"
		if t.blockedWrite {
			kind = "write"
		}
		desc = append(desc, fmt.Sprintf("%s (%s) waits for the %s lock at %s", t.Name, shortOrigin(t.Origin), kind, t.blockedSite))
	}
	sort.Strings(desc)
	return true, strings.Join(desc, "; ")
}

func shortOrigin(o string) string {
	if i := strings.LastIndex(o, "/"); i >= 0 {
		return o[i+1:]
	}
	return o
}
