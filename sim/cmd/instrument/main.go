// instrument rewrites a scratch copy of the repository's Go sources so that
// every mutex acquisition and release becomes a scheduling point of the
// simulator:
//
//	x.Lock()          =>  verifhook.Yield("lock", site); x.Lock(); verifhook.Acquire()
//	x.Unlock()        =>  x.Unlock(); verifhook.Release(site)
//	defer x.Unlock()  =>  defer verifhook.Release(site); defer x.Unlock()
//
// (same for RLock/RUnlock). In the Execute methods of the flow processors
// (streams/processors/**) every statement additionally gets a scheduling point
// in front of it (verifhook.Yield("stmt", site)): per-transaction work on shared
// processor objects happens there, often without any lock in between.
// It never touches /repo; the harness is compiled
// against the rewritten copy. usage: instrument <root> <relative-prefix>
package main

import (
	"bytes"
	"fmt"
	"go/ast"
	"go/format"
	"go/parser"
	"go/token"
	"os"
	"path/filepath"
	"strconv"
	"strings"
)

const hookPath = "lunar/toolkit-core/verifhook"

func main() {
	if len(os.Args) < 2 {
		fmt.Fprintln(os.Stderr, "usage: instrument <dir>...")
		os.Exit(2)
	}
	n, sites := 0, 0
	for _, root := range os.Args[1:] {
		filepath.Walk(root, func(p string, info os.FileInfo, err error) error {
			if err != nil || info.IsDir() {
				return nil
			}
			if !strings.HasSuffix(p, ".go") || strings.HasSuffix(p, "_test.go") || strings.Contains(p, "/verifhook/") {
				return nil
			}
			rel, _ := filepath.Rel(filepath.Dir(root), p)
			k, err := rewrite(p, rel)
			if err != nil {
				fmt.Fprintf(os.Stderr, "instrument %s: %v\n", p, err)
				os.Exit(2)
			}
			if k > 0 {
				n++
				sites += k
			}
			return nil
		})
	}
	fmt.Printf("instrumented %d files, %d lock sites\n", n, sites)
}

func lockKind(call *ast.CallExpr) string {
	if len(call.Args) != 0 {
		return ""
	}
	sel, ok := call.Fun.(*ast.SelectorExpr)
	if !ok {
		return ""
	}
	switch sel.Sel.Name {
	case "Lock", "RLock":
		return "lock"
	case "Unlock", "RUnlock":
		return "unlock"
	}
	return ""
}

// simpleChain: an identifier or a chain of field selectors on one - such an
// expression is addressable (no calls, no map or slice indexing in it).
func simpleChain(e ast.Expr) bool {
	switch x := e.(type) {
	case *ast.Ident:
		return true
	case *ast.SelectorExpr:
		return simpleChain(x.X)
	}
	return false
}

func hookCall(fn string, args ...string) *ast.CallExpr {
	var a []ast.Expr
	for _, s := range args {
		a = append(a, &ast.BasicLit{Kind: token.STRING, Value: strconv.Quote(s)})
	}
	return &ast.CallExpr{Fun: &ast.SelectorExpr{X: ast.NewIdent("verifhook"), Sel: ast.NewIdent(fn)}, Args: a}
}

func rewrite(path, rel string) (int, error) {
	fset := token.NewFileSet()
	src, err := os.ReadFile(path)
	if err != nil {
		return 0, err
	}
	f, err := parser.ParseFile(fset, path, src, parser.ParseComments)
	if err != nil {
		return 0, err
	}
	count := 0
	generated := map[*ast.BlockStmt]bool{} // blocks this tool made: not to be rewritten again
	var doList func(list []ast.Stmt) []ast.Stmt
	doList = func(list []ast.Stmt) []ast.Stmt {
		out := make([]ast.Stmt, 0, len(list))
		for _, st := range list {
			switch s := st.(type) {
			case *ast.ExprStmt:
				if call, ok := s.X.(*ast.CallExpr); ok {
					site := fmt.Sprintf("%s:%d", rel, fset.Position(s.Pos()).Line)
					switch lockKind(call) {
					case "lock":
						count++
						sel := call.Fun.(*ast.SelectorExpr)
						lockStmt := st
						if simpleChain(sel.X) {
							// if !verifhook.SimLock(&x, write, site) { x.Lock() }: a simulator that
							// simulates blocking takes the lock itself (cooperatively)
							write := "true"
							if sel.Sel.Name == "RLock" {
								write = "false"
							}
							sim := &ast.CallExpr{Fun: &ast.SelectorExpr{X: ast.NewIdent("verifhook"), Sel: ast.NewIdent("SimLock")},
								Args: []ast.Expr{&ast.UnaryExpr{Op: token.AND, X: sel.X}, ast.NewIdent(write),
									&ast.BasicLit{Kind: token.STRING, Value: strconv.Quote(site)}}}
							body := &ast.BlockStmt{List: []ast.Stmt{st}}
							generated[body] = true
							lockStmt = &ast.IfStmt{Cond: &ast.UnaryExpr{Op: token.NOT, X: sim}, Body: body}
						}
						out = append(out, &ast.ExprStmt{X: hookCall("Yield", "lock", site)}, lockStmt, &ast.ExprStmt{X: hookCall("Acquire")})
						continue
					case "unlock":
						count++
						out = append(out, st, &ast.ExprStmt{X: hookCall("Release", site)})
						continue
					}
				}
			case *ast.DeferStmt:
				if lockKind(s.Call) == "unlock" {
					count++
					site := fmt.Sprintf("%s:%d", rel, fset.Position(s.Pos()).Line)
					out = append(out, &ast.DeferStmt{Call: hookCall("Release", site)}, st)
					continue
				}
			}
			out = append(out, st)
		}
		return out
	}
	// x.TryLock() / x.TryRLock() become (verifhook.Fault("trylock", site) == nil && x.TryLock()):
	// the simulator cannot make a lock contended (it never parks a task that holds
	// one), so a scenario may let such an attempt fail as if another goroutine held
	// the lock at that instant
	var tryExpr func(e ast.Expr) ast.Expr
	tryExpr = func(e ast.Expr) ast.Expr {
		switch x := e.(type) {
		case *ast.CallExpr:
			if sel, ok := x.Fun.(*ast.SelectorExpr); ok && len(x.Args) == 0 && (sel.Sel.Name == "TryLock" || sel.Sel.Name == "TryRLock") {
				count++
				site := fmt.Sprintf("%s:%d", rel, fset.Position(x.Pos()).Line)
				return &ast.ParenExpr{X: &ast.BinaryExpr{Op: token.LAND,
					X: &ast.BinaryExpr{Op: token.EQL, X: hookCall("Fault", "trylock", site), Y: ast.NewIdent("nil")},
					Y: x}}
			}
		case *ast.UnaryExpr:
			x.X = tryExpr(x.X)
		case *ast.BinaryExpr:
			x.X, x.Y = tryExpr(x.X), tryExpr(x.Y)
		case *ast.ParenExpr:
			x.X = tryExpr(x.X)
		}
		return e
	}
	ast.Inspect(f, func(n ast.Node) bool {
		switch b := n.(type) {
		case *ast.IfStmt:
			b.Cond = tryExpr(b.Cond)
		case *ast.AssignStmt:
			for i := range b.Rhs {
				b.Rhs[i] = tryExpr(b.Rhs[i])
			}
		case *ast.ReturnStmt:
			for i := range b.Results {
				b.Results[i] = tryExpr(b.Results[i])
			}
		}
		return true
	})
	ast.Inspect(f, func(n ast.Node) bool {
		switch b := n.(type) {
		case *ast.BlockStmt:
			if !generated[b] {
				b.List = doList(b.List)
			}
		case *ast.CaseClause:
			b.Body = doList(b.Body)
		case *ast.CommClause:
			b.Body = doList(b.Body)
		}
		return true
	})
	if strings.Contains(path, "/streams/processors/") {
		var stmts func(b *ast.BlockStmt)
		body := func(list []ast.Stmt) []ast.Stmt {
			out := make([]ast.Stmt, 0, 2*len(list))
			for _, st := range list {
				if _, isDecl := st.(*ast.DeclStmt); !isDecl {
					if _, isLabel := st.(*ast.LabeledStmt); !isLabel {
						count++
						site := fmt.Sprintf("%s:%d", rel, fset.Position(st.Pos()).Line)
						out = append(out, &ast.ExprStmt{X: hookCall("Yield", "stmt", site)})
					}
				}
				out = append(out, st)
				switch x := st.(type) {
				case *ast.IfStmt:
					for cur := x; cur != nil; {
						stmts(cur.Body)
						switch e := cur.Else.(type) {
						case *ast.IfStmt:
							cur = e
						case *ast.BlockStmt:
							stmts(e)
							cur = nil
						default:
							cur = nil
						}
					}
				case *ast.ForStmt:
					stmts(x.Body)
				case *ast.RangeStmt:
					stmts(x.Body)
				case *ast.BlockStmt:
					stmts(x)
				}
			}
			return out
		}
		stmts = func(b *ast.BlockStmt) {
			if b != nil {
				b.List = body(b.List)
			}
		}
		for _, d := range f.Decls {
			if fd, ok := d.(*ast.FuncDecl); ok && fd.Recv != nil && fd.Name.Name == "Execute" && fd.Body != nil {
				stmts(fd.Body)
			}
		}
	}
	if count == 0 {
		return 0, nil
	}
	// add the import unless present
	has := false
	for _, im := range f.Imports {
		if im.Path.Value == strconv.Quote(hookPath) {
			has = true
		}
	}
	if !has {
		spec := &ast.ImportSpec{Path: &ast.BasicLit{Kind: token.STRING, Value: strconv.Quote(hookPath)}}
		added := false
		for _, d := range f.Decls {
			if g, ok := d.(*ast.GenDecl); ok && g.Tok == token.IMPORT {
				g.Specs = append(g.Specs, spec)
				if !g.Lparen.IsValid() {
					g.Lparen = g.Pos()
					g.Rparen = g.End()
				}
				added = true
				break
			}
		}
		if !added {
			f.Decls = append([]ast.Decl{&ast.GenDecl{Tok: token.IMPORT, Specs: []ast.Spec{spec}}}, f.Decls...)
		}
	}
	var buf bytes.Buffer
	if err := format.Node(&buf, fset, f); err != nil {
		return 0, err
	}
	return count, os.WriteFile(path, buf.Bytes(), 0o644)
}
