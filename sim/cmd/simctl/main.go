// simctl builds the simulation harness from /repo's working tree, fans runs out
// over seeds, collects and minimises violations, matches known findings and
// writes the evidence file. Exit status: 0 held, 1 violation, 2 trouble.
package main

import (
	"bytes"
	"encoding/json"
	"flag"
	"fmt"
	"hash/fnv"
	"os"
	"os/exec"
	"path/filepath"
	"regexp"
	"sort"
	"strconv"
	"strings"
	"sync"
	"time"

	kernel "verifsim/proto"
)

var verifDir = "/verif"

func main() {
	if d := os.Getenv("VERIF_DIR"); d != "" {
		verifDir = d
	} else if exe, err := os.Executable(); err == nil {
		// simctl lives in <verif>/simctl or <verif>/sim/bin/simctl
		d := filepath.Dir(exe)
		for i := 0; i < 3; i++ {
			if _, err := os.Stat(filepath.Join(d, "properties.jsonl")); err == nil {
				verifDir = d
				break
			}
			d = filepath.Dir(d)
		}
	}
	if len(os.Args) < 2 {
		usage()
	}
	switch os.Args[1] {
	case "build":
		if err := build(false); err != nil {
			fmt.Fprintln(os.Stderr, err)
			os.Exit(2)
		}
	case "check":
		os.Exit(cmdCheck(os.Args[2:]))
	case "replay":
		os.Exit(cmdReplay(os.Args[2:]))
	case "determinism":
		os.Exit(cmdDeterminism(os.Args[2:]))
	default:
		usage()
	}
}

func usage() {
	fmt.Fprintln(os.Stderr, "usage: simctl build | check <id> [--tier quick|thorough] [--runs n] [--secs n] | replay <file> | determinism <scenario> [--seeds n]")
	os.Exit(2)
}

// ---- build -------------------------------------------------------------------

func goEnv() []string {
	env := os.Environ()
	env = append(env, "GOFLAGS=-mod=mod", "GOPROXY=off", "GOSUMDB=off", "GOTOOLCHAIN=local", "CGO_ENABLED=1")
	return env
}

func simDir() string { return filepath.Join(verifDir, "sim") }
func binDir() string {
	if d := os.Getenv("VERIF_BINDIR"); d != "" {
		return d // development only: lets a seeded change be checked in a scratch worktree
	}
	return filepath.Join(verifDir, "sim", "bin")
}

// repoDir is /repo; VERIF_REPO (development only, never set by a registered
// command) points the build at a scratch worktree holding a seeded change.
func repoDir() string {
	if d := os.Getenv("VERIF_REPO"); d != "" {
		return d
	}
	return "/repo"
}

// build compiles the scenario test binary from /repo's current working tree
// with -tags verif. The sources are first copied to a scratch directory outside
// /repo and /verif and instrumented there (every mutex Lock/Unlock becomes a
// scheduling point, see cmd/instrument); the scratch copy is removed afterwards.
func build(race bool) error {
	os.MkdirAll(binDir(), 0o755)
	scratch, err := os.MkdirTemp("", "verifsim-build-")
	if err != nil {
		return fmt.Errorf("BUILD FAILED (exit 2): %v", err)
	}
	defer os.RemoveAll(scratch)
	run := func(dir string, name string, args ...string) error {
		cmd := exec.Command(name, args...)
		cmd.Dir = dir
		cmd.Env = goEnv()
		b, err := cmd.CombinedOutput()
		if err != nil {
			return fmt.Errorf("BUILD FAILED (exit 2, not a violation): %s %v:\n%s", name, args, b)
		}
		return nil
	}
	src := repoDir() + "/proxy/src"
	os.MkdirAll(filepath.Join(scratch, "services"), 0o755)
	for _, d := range []string{"libs", "services/lunar-engine", "services/aggregation-output-plugin"} {
		if err := run("/", "cp", "-a", filepath.Join(src, d), filepath.Join(scratch, d)); err != nil {
			return err
		}
	}
	inst := filepath.Join(binDir(), "instrument")
	stale := true
	if bi, err := os.Stat(inst); err == nil {
		if si, err := os.Stat(filepath.Join(simDir(), "cmd/instrument/main.go")); err == nil && !si.ModTime().After(bi.ModTime()) {
			stale = false
		}
	}
	if stale {
		tmpInst := filepath.Join(binDir(), fmt.Sprintf("instrument.%d.tmp", os.Getpid()))
		if err := run(simDir(), "go1.26.8", "build", "-o", tmpInst, "./cmd/instrument"); err != nil {
			return err
		}
		if err := os.Rename(tmpInst, inst); err != nil {
			return err
		}
	}
	if os.Getenv("VERIF_NO_INSTRUMENT") == "" {
		if err := run("/", inst, filepath.Join(scratch, "services/lunar-engine"), filepath.Join(scratch, "libs/toolkit-core")); err != nil {
			return err
		}
	}
	// module file pointing at the scratch copy
	mod, err := os.ReadFile(filepath.Join(simDir(), "go.mod"))
	if err != nil {
		return err
	}
	m := strings.ReplaceAll(string(mod), "/repo/proxy/src", scratch)
	os.WriteFile(filepath.Join(scratch, "go.mod"), []byte(m), 0o644)
	writeGoSum(filepath.Join(scratch, "go.sum"))
	// built under a private name and moved into place: several checks may build
	// and run side by side, and a binary that is being executed cannot be rewritten
	out := filepath.Join(binDir(), "scen.test")
	tmpOut := filepath.Join(binDir(), fmt.Sprintf("scen.%d.tmp", os.Getpid()))
	args := []string{"test", "-c", "-trimpath", "-tags", "verif", "-modfile", filepath.Join(scratch, "go.mod"), "-o", tmpOut, "./scen"}
	if race {
		out = filepath.Join(binDir(), "scen.race.test")
		args = []string{"test", "-c", "-race", "-trimpath", "-tags", "verif", "-modfile", filepath.Join(scratch, "go.mod"), "-o", tmpOut, "./scen"}
	}
	defer os.Remove(tmpOut)
	if err := run(simDir(), "go1.26.8", args...); err != nil {
		return err
	}
	return os.Rename(tmpOut, out)
}

func writeGoSum(dst string) {
	seen := map[string]bool{}
	var lines []string
	srcs := []string{
		filepath.Join(simDir(), "go.sum"),
		repoDir() + "/proxy/src/services/lunar-engine/go.sum",
		repoDir() + "/proxy/src/services/aggregation-output-plugin/go.sum",
		repoDir() + "/proxy/src/libs/toolkit-core/go.sum",
		repoDir() + "/proxy/src/libs/shared-model/go.sum",
	}
	for _, p := range srcs {
		b, err := os.ReadFile(p)
		if err != nil {
			continue
		}
		for _, l := range strings.Split(string(b), "\n") {
			if l != "" && !seen[l] {
				seen[l] = true
				lines = append(lines, l)
			}
		}
	}
	sort.Strings(lines)
	os.WriteFile(dst, []byte(strings.Join(lines, "\n")+"\n"), 0o644)
}

// ---- child runs --------------------------------------------------------------

type childOut struct {
	results []kernel.Result
	exit    int
	stderr  string
	seed    uint64
	count   int
}

func runChild(sc *ScenSpec, tmp string, seedStart uint64, count int, tapeFile string, events bool, gomaxprocs int) childOut {
	out := filepath.Join(tmp, fmt.Sprintf("out-%s-%d-%d.jsonl", sc.ID, seedStart, time.Now().UnixNano()))
	defer os.Remove(out)
	var cmd *exec.Cmd
	if len(sc.Cmd) > 0 {
		cmd = exec.Command(sc.Cmd[0], sc.Cmd[1:]...)
		cmd.Dir = verifDir
	} else {
		bin := filepath.Join(binDir(), "scen.test")
		if sc.Race {
			bin = filepath.Join(binDir(), "scen.race.test")
		}
		cmd = exec.Command(bin, "-test.run", "^TestSim$", "-test.cpu", "1", "-test.timeout", "0")
		cmd.Dir = tmp
	}
	env := append(os.Environ(), "VERIF_SCEN="+sc.ID, "VERIF_OUT="+out, "VERIF_TMP="+tmp,
		"GODEBUG=asyncpreemptoff=1", "GORACE=halt_on_error=0 exitcode=66 history_size=3")
	env = append(env, sc.Env...)
	if gomaxprocs > 0 {
		env = append(env, "GOMAXPROCS="+strconv.Itoa(gomaxprocs))
	} else {
		env = append(env, "GOMAXPROCS=1")
	}
	if tapeFile != "" {
		env = append(env, "VERIF_TAPE="+tapeFile)
	} else {
		env = append(env, fmt.Sprintf("VERIF_SEEDS=%d:%d", seedStart, count))
	}
	if events {
		env = append(env, "VERIF_EVENTS=1")
	}
	cmd.Env = env
	var stderr bytes.Buffer
	cmd.Stderr = &stderr
	cmd.Stdout = nil
	err := cmd.Run()
	co := childOut{seed: seedStart, count: count}
	if err != nil {
		if ee, ok := err.(*exec.ExitError); ok {
			co.exit = ee.ExitCode()
		} else {
			co.exit = 2
			stderr.WriteString(err.Error())
		}
	}
	co.stderr = stderr.String()
	if b, err := os.ReadFile(out); err == nil {
		for _, l := range bytes.Split(b, []byte("\n")) {
			if len(l) == 0 {
				continue
			}
			var r kernel.Result
			if err := json.Unmarshal(l, &r); err != nil {
				co.exit = 2
				co.stderr += "\nunparsable result line: " + err.Error()
				continue
			}
			co.results = append(co.results, r)
		}
	}
	return co
}

// crashViolation turns an abnormal child exit into a violation when the
// crash is in engine code; otherwise it is harness trouble.
var frameRe = regexp.MustCompile(`(?m)^(lunar/[^\s(]+(?:\([^)]*\))?[^\s(]*)\(`)

func crashInfo(stderr string) (engine bool, frame string, kind string) {
	switch {
	case strings.Contains(stderr, "WARNING: DATA RACE"):
		kind = "race"
	case strings.Contains(stderr, "stack overflow") || strings.Contains(stderr, "goroutine stack exceeds"):
		kind = "stack-overflow"
	case strings.Contains(stderr, "fatal error:"):
		kind = "fatal"
	case strings.Contains(stderr, "panic:"):
		kind = "panic"
	default:
		return false, "", ""
	}
	// first frame after the panic header that is not runtime
	idx := strings.Index(stderr, "goroutine ")
	body := stderr
	if idx >= 0 {
		body = stderr[idx:]
	}
	for _, l := range strings.Split(body, "\n") {
		if strings.HasPrefix(l, "\t") || l == "" || strings.HasPrefix(l, "goroutine ") {
			continue
		}
		if strings.HasPrefix(l, "runtime.") || strings.HasPrefix(l, "runtime/") || strings.HasPrefix(l, "runtime:") || strings.HasPrefix(l, "runtime stack:") ||
			strings.HasPrefix(l, "fatal error:") || strings.HasPrefix(l, "panic(") ||
			strings.HasPrefix(l, "sync.") || strings.HasPrefix(l, "internal/") || strings.HasPrefix(l, "created by") {
			continue
		}
		if i := strings.LastIndexByte(l, '('); i > 0 {
			l = l[:i]
		}
		frame = l
		break
	}
	if kind == "stack-overflow" {
		// the frame on top when the stack ran out is arbitrary; name the recursion
		// instead: the (alphabetically first) engine function that repeats in the stack
		count := map[string]int{}
		for _, l := range strings.Split(body, "\n") {
			if !strings.HasPrefix(l, "lunar/") {
				continue
			}
			if i := strings.LastIndexByte(l, '('); i > 0 {
				l = l[:i]
			}
			count[l]++
		}
		best := ""
		for fn, n := range count {
			if n >= 3 && (best == "" || fn < best) {
				best = fn
			}
		}
		if best != "" {
			frame = best
		}
	}
	return strings.HasPrefix(frame, "lunar/"), frame, kind
}

// ---- check -------------------------------------------------------------------

type vioRec struct {
	v      kernel.Violation
	scen   *ScenSpec
	seed   uint64
	tape   []int
	res    *kernel.Result
	crash  bool
	stderr string
}

type agg struct {
	mu         sync.Mutex
	runs       int
	simNs      int64
	steps      int64
	faults     map[string]int
	yields     map[string]int
	probes     map[string]int
	rules      map[string]int
	sigs       map[string]bool // distinct interleavings among non-trivial runs
	allSigs    map[string]bool
	states     map[string]bool
	nontrivial int
	samples    []kernel.Result
	vios       map[string][]vioRec // key rule|sig
	trouble    []string
	firstSeed  uint64
	lastSeed   uint64
}

func newAgg() *agg {
	return &agg{faults: map[string]int{}, yields: map[string]int{}, probes: map[string]int{}, rules: map[string]int{},
		sigs: map[string]bool{}, allSigs: map[string]bool{}, states: map[string]bool{}, vios: map[string][]vioRec{}}
}

func addMap(dst, src map[string]int) {
	for k, v := range src {
		dst[k] += v
	}
}

func (a *agg) add(sc *ScenSpec, co childOut) {
	a.mu.Lock()
	defer a.mu.Unlock()
	for i := range co.results {
		r := &co.results[i]
		a.runs++
		a.simNs += r.Stats.SimNs
		a.steps += int64(r.Stats.Steps)
		addMap(a.faults, r.Stats.Faults)
		addMap(a.yields, r.Stats.Yields)
		addMap(a.probes, r.Stats.Probes)
		addMap(a.rules, r.Stats.Rules)
		a.allSigs[sc.ID+r.Stats.Sig] = true
		if r.Stats.Nontrivial {
			a.nontrivial++
			a.sigs[sc.ID+r.Stats.Sig] = true
		}
		for _, st := range r.Stats.States {
			a.states[sc.ID+":"+st] = true
		}
		if r.HarnessErr != "" {
			a.trouble = append(a.trouble, fmt.Sprintf("%s seed %d: %s", sc.ID, r.Seed, r.HarnessErr))
		}
		for _, v := range r.Violations {
			k := v.Rule + "|" + v.Sig
			if len(a.vios[k]) < 8 {
				a.vios[k] = append(a.vios[k], vioRec{v: v, scen: sc, seed: r.Seed, tape: r.Tape, res: r})
			}
		}
		if len(a.samples) < 3 && r.Stats.Nontrivial && len(r.Events) > 0 {
			a.samples = append(a.samples, *r)
		}
	}
	if sc.Race && strings.Contains(co.stderr, "WARNING: DATA RACE") {
		seed := co.seed
		for _, rep := range strings.Split(co.stderr, "==================") {
			if !strings.Contains(rep, "WARNING: DATA RACE") {
				continue
			}
			sig := raceSig(rep)
			if sig == "race:unknown" {
				a.trouble = append(a.trouble, fmt.Sprintf("%s seed %d: race report without engine frames (harness?)\n%s", sc.ID, seed, head(rep, 2500)))
				continue
			}
			k := "R1|" + sig
			if len(a.vios[k]) < 4 {
				a.vios[k] = append(a.vios[k], vioRec{v: kernel.Violation{Rule: "R1", Sig: sig, Detail: strings.TrimSpace(head(rep, 5000))},
					scen: sc, seed: seed, crash: true, stderr: rep})
			}
		}
		if co.exit == 66 {
			co.exit = 0
		}
	}
	if co.exit != 0 {
		missing := co.count - len(co.results)
		if missing < 0 {
			missing = 0
		}
		engine, frame, kind := crashInfo(co.stderr)
		seed := co.seed + uint64(len(co.results))
		switch {
		case co.exit == 3:
			if sc.HangRule != "" {
				k := sc.HangRule + "|hang"
				a.vios[k] = append(a.vios[k], vioRec{v: kernel.Violation{Rule: sc.HangRule, Sig: "hang", Detail: "run made no progress (engine blocked); stacks:\n" + tail(co.stderr, 3000)},
					scen: sc, seed: seed, crash: true, stderr: co.stderr})
			} else {
				a.trouble = append(a.trouble, fmt.Sprintf("%s seed %d: WATCHDOG\n%s", sc.ID, seed, tail(co.stderr, 3000)))
			}
		case engine:
			rule := sc.CrashRule
			if rule == "" {
				rule = "RC"
			}
			sig := "crash:" + kind + ":" + frame
			k := rule + "|" + sig
			if len(a.vios[k]) < 4 {
				a.vios[k] = append(a.vios[k], vioRec{v: kernel.Violation{Rule: rule, Sig: sig, Detail: "engine process crashed: " + head(co.stderr, 1500)},
					scen: sc, seed: seed, crash: true, stderr: co.stderr})
			}
		default:
			a.trouble = append(a.trouble, fmt.Sprintf("%s seed %d: child exit %d\n%s", sc.ID, seed, co.exit, tail(co.stderr, 3000)))
		}
	}
}

func head(s string, n int) string {
	if len(s) > n {
		return s[:n]
	}
	return s
}
func tail(s string, n int) string {
	if len(s) > n {
		return s[len(s)-n:]
	}
	return s
}

// raceSig = the two normalised top engine frames of a race report.
func raceSig(stderr string) string {
	blocks := strings.Split(stderr, "\n\n")
	var tops []string
	for _, b := range blocks {
		t := strings.TrimSpace(b)
		if !(strings.HasPrefix(t, "Write at") || strings.HasPrefix(t, "Read at") || strings.HasPrefix(t, "Previous write at") ||
			strings.HasPrefix(t, "Previous read at") || strings.HasPrefix(t, "WARNING: DATA RACE")) {
			continue
		}
		for _, l := range strings.Split(t, "\n") {
			l = strings.TrimSpace(l)
			if strings.HasPrefix(l, "lunar/") {
				if i := strings.LastIndexByte(l, '('); i > 0 {
					l = l[:i]
				}
				tops = append(tops, l)
				break
			}
		}
	}
	// a WARNING block contains the first access; split handled above per block
	if len(tops) > 2 {
		tops = tops[:2]
	}
	sort.Strings(tops)
	if len(tops) == 0 {
		return "race:unknown"
	}
	return "race:" + strings.Join(tops, "<->")
}

type knownFinding struct {
	Property string `json:"property"`
	Rule     string `json:"rule"`
	Sig      string `json:"sig"`
	Status   string `json:"status"` // "open" or "fixed"
	What     string `json:"what"`
	Commit   string `json:"commit,omitempty"`
}

func loadKnown() []knownFinding {
	b, err := os.ReadFile(filepath.Join(verifDir, "known-findings.json"))
	if err != nil {
		return nil
	}
	var f struct {
		Findings []knownFinding `json:"findings"`
	}
	if err := json.Unmarshal(b, &f); err != nil {
		fmt.Fprintln(os.Stderr, "known-findings.json unparsable:", err)
		os.Exit(2)
	}
	return f.Findings
}

func cmdCheck(args []string) int {
	if len(args) < 1 {
		usage()
	}
	id := args[0]
	fs := flag.NewFlagSet("check", flag.ExitOnError)
	tier := fs.String("tier", envOr("VERIF_TIER", "quick"), "quick|thorough")
	runsOverride := fs.Int("runs", 0, "override number of runs per scenario")
	secsOverride := fs.Int("secs", 0, "override wall-clock budget per scenario (s)")
	workers := fs.Int("workers", 16, "parallel child processes")
	noEvidence := fs.Bool("no-evidence", false, "do not write the evidence file")
	fs.Parse(args[1:])
	prop := props[id]
	if prop == nil {
		fmt.Fprintf(os.Stderr, "no check for property %s\n", id)
		return 2
	}
	seedBase := uint64(1)
	if v := os.Getenv("VERIF_SEED"); v != "" {
		if n, err := strconv.ParseUint(v, 10, 64); err == nil {
			seedBase = n
		}
	}
	t0 := time.Now()
	needRace, needPlain := false, false
	for i := range prop.Scens {
		if len(prop.Scens[i].Cmd) > 0 {
			continue
		}
		if prop.Scens[i].Race {
			needRace = true
		} else {
			needPlain = true
		}
	}
	if needPlain {
		if err := build(false); err != nil {
			fmt.Fprintln(os.Stderr, err)
			return 2
		}
	}
	if needRace {
		if err := build(true); err != nil {
			fmt.Fprintln(os.Stderr, err)
			return 2
		}
	}
	buildS := time.Since(t0).Seconds()
	tmp, err := os.MkdirTemp("", "verifsim-")
	if err != nil {
		fmt.Fprintln(os.Stderr, err)
		return 2
	}
	defer os.RemoveAll(tmp)

	a := newAgg()
	a.firstSeed = seedBase * 1000003
	perScen := map[string]int{}
	for i := range prop.Scens {
		sc := &prop.Scens[i]
		runs, secs := sc.QuickRuns, sc.QuickSecs
		if *tier == "thorough" {
			runs, secs = sc.ThoroughRuns, sc.ThoroughSecs
		}
		if *runsOverride > 0 {
			runs = *runsOverride
		}
		if *secsOverride > 0 {
			secs = *secsOverride
		}
		if secs == 0 {
			secs = 120
		}
		deadline := time.Now().Add(time.Duration(secs) * time.Second)
		chunk := 1
		if sc.Batch > 1 {
			chunk = sc.Batch
		}
		type job struct {
			start  uint64
			n      int
			events bool
		}
		jobs := make(chan job, 64)
		var wg sync.WaitGroup
		before := a.runs
		for w := 0; w < *workers; w++ {
			wg.Add(1)
			go func() {
				defer wg.Done()
				for j := range jobs {
					if time.Now().After(deadline) {
						continue
					}
					co := runChild(sc, tmp, j.start, j.n, "", j.events, 0)
					if co.exit == 3 || co.exit < 0 {
						// watchdog or killed by a signal: on a starved machine a run can stand
						// still for the watchdog's real-time limit. A run is a function of its
						// seed, so a genuine hang shows again; try once more before reporting.
						co = runChild(sc, tmp, j.start, j.n, "", j.events, 0)
					}
					a.add(sc, co)
				}
			}()
		}
		base := a.firstSeed
		if sc.SeedFromZero {
			base = 0
		}
		for off := 0; off < runs; off += chunk {
			n := chunk
			if off+n > runs {
				n = runs - off
			}
			if time.Now().After(deadline) {
				break
			}
			jobs <- job{base + uint64(off), n, off < 6*chunk}
			a.lastSeed = base + uint64(off+n-1)
		}
		close(jobs)
		wg.Wait()
		perScen[sc.ID] = a.runs - before
	}
	// ---- violations ----
	known := loadKnown()
	exit := 0
	var lines []string
	keys := make([]string, 0, len(a.vios))
	for k := range a.vios {
		keys = append(keys, k)
	}
	sort.Strings(keys)
	nViol := 0
	knownSeen := 0
	os.MkdirAll(filepath.Join(verifDir, "out", "replays"), 0o755)
	for _, k := range keys {
		recs := a.vios[k]
		sort.Slice(recs, func(i, j int) bool {
			if len(recs[i].tape) != len(recs[j].tape) {
				return len(recs[i].tape) < len(recs[j].tape)
			}
			return recs[i].seed < recs[j].seed
		})
		rec := recs[0]
		var kf *knownFinding
		for i := range known {
			f := &known[i]
			if f.Property == id && f.Status == "open" && f.Rule == rec.v.Rule && f.Sig == rec.v.Sig {
				kf = f
			}
		}
		if kf != nil {
			knownSeen++
			lines = append(lines, fmt.Sprintf("KNOWN-FINDING: property=%s rule=%s sig=%s %s (re-observed in %d run(s), e.g. seed %d)", id, kf.Rule, kf.Sig, kf.What, len(recs), rec.seed))
			continue
		}
		nViol++
		path := writeReplay(id, rec, tmp)
		lines = append(lines, fmt.Sprintf("VIOLATION property=%s replay=%s", id, path))
		lines = append(lines, fmt.Sprintf("  rule=%s sig=%s seed=%d\n  %s", rec.v.Rule, rec.v.Sig, rec.seed, head(rec.v.Detail, 800)))
		exit = 1
	}
	wall := time.Since(t0).Seconds()
	if len(a.trouble) > 0 {
		for i, t := range a.trouble {
			if i >= 5 {
				break
			}
			fmt.Fprintln(os.Stderr, "TROUBLE:", t)
		}
		if exit == 0 {
			exit = 2
		}
	}
	if a.runs == 0 && exit == 0 {
		fmt.Fprintln(os.Stderr, "no runs completed")
		exit = 2
	}
	if !*noEvidence && exit != 2 {
		writeEvidence(id, prop, *tier, seedBase, a, perScen, wall, buildS, nViol, knownSeen)
	}
	for _, l := range lines {
		fmt.Println(l)
	}
	fmt.Printf("%s tier=%s runs=%d nontrivial=%d distinct_interleavings=%d states=%d sim_time=%.0fs wall=%.1fs (build %.1fs) violations=%d known=%d exit=%d\n",
		id, *tier, a.runs, a.nontrivial, len(a.sigs), len(a.states), float64(a.simNs)/1e9, wall, buildS, nViol, knownSeen, exit)
	return exit
}

func envOr(k, d string) string {
	if v := os.Getenv(k); v != "" {
		return v
	}
	return d
}

// ---- replay files and shrinking ---------------------------------------------

func sigHash(s string) string {
	h := fnv.New32a()
	h.Write([]byte(s))
	return fmt.Sprintf("%08x", h.Sum32())
}

func writeTape(tmp string, seed uint64, tape []int) string {
	p := filepath.Join(tmp, fmt.Sprintf("tape-%d-%d.json", seed, time.Now().UnixNano()))
	b, _ := json.Marshal(map[string]any{"seed": seed, "tape": tape})
	os.WriteFile(p, b, 0o644)
	return p
}

// fails reports whether the tape reproduces a violation of the same rule+sig.
func fails(sc *ScenSpec, tmp string, seed uint64, tape []int, rule, sig string) (*kernel.Result, bool) {
	tf := writeTape(tmp, seed, tape)
	defer os.Remove(tf)
	co := runChild(sc, tmp, seed, 1, tf, true, 0)
	for i := range co.results {
		for _, v := range co.results[i].Violations {
			if v.Rule == rule && v.Sig == sig {
				return &co.results[i], true
			}
		}
	}
	return nil, false
}

func shrink(sc *ScenSpec, tmp string, rec vioRec) ([]int, *kernel.Result, int) {
	best := append([]int(nil), rec.tape...)
	var bestRes *kernel.Result
	tries := 0
	deadline := time.Now().Add(60 * time.Second)
	try := func(c []int) bool {
		if tries >= 150 || time.Now().After(deadline) {
			return false
		}
		tries++
		if r, ok := fails(sc, tmp, rec.seed, c, rec.v.Rule, rec.v.Sig); ok {
			// the child reports the tape it actually consumed (normalised)
			best = append([]int(nil), r.Tape...)
			if len(best) > len(c) {
				best = append([]int(nil), c...)
			}
			bestRes = r
			return true
		}
		return false
	}
	// 1. drop the tail
	for n := len(best) / 2; n >= 1; n /= 2 {
		for len(best) > n && try(best[:len(best)-n]) {
		}
	}
	// 2. delete chunks
	for size := len(best) / 2; size >= 1; size /= 2 {
		for i := 0; i+size <= len(best); {
			c := append(append([]int(nil), best[:i]...), best[i+size:]...)
			if !try(c) {
				i += size
			}
		}
	}
	// 3. zero, then halve single values
	for i := 0; i < len(best); i++ {
		if best[i] == 0 {
			continue
		}
		c := append([]int(nil), best...)
		c[i] = 0
		if try(c) {
			continue
		}
		if best[i] > 1 {
			c = append([]int(nil), best...)
			c[i] = best[i] / 2
			try(c)
		}
	}
	return best, bestRes, tries
}

func writeReplay(prop string, rec vioRec, tmp string) string {
	rf := kernel.ReplayFile{Property: prop, Scenario: rec.scen.ID, Seed: rec.seed, Tape: rec.tape,
		Rule: rec.v.Rule, Sig: rec.v.Sig, Detail: rec.v.Detail, OrigTapeLen: len(rec.tape)}
	if rec.res != nil {
		rf.Knobs, rf.Events, rf.Files = rec.res.Knobs, rec.res.Events, rec.res.Files
	}
	if rec.crash || len(rec.tape) == 0 {
		rf.Note = "the child process ended abnormally (or the scenario is seed-driven); replay regenerates the tape from the seed"
	} else if len(rec.scen.Cmd) == 0 || rec.scen.Shrink {
		tape, res, tries := shrink(rec.scen, tmp, rec)
		if res != nil {
			// confirm in a fresh process
			if r2, ok := fails(rec.scen, tmp, rec.seed, tape, rec.v.Rule, rec.v.Sig); ok {
				rf.Tape, rf.Minimised = tape, true
				rf.Knobs, rf.Events, rf.Files = r2.Knobs, r2.Events, r2.Files
				for _, v := range r2.Violations {
					if v.Rule == rec.v.Rule && v.Sig == rec.v.Sig {
						rf.Detail = v.Detail
					}
				}
			}
		}
		rf.Note = fmt.Sprintf("shrinking used %d child runs", tries)
	}
	name := fmt.Sprintf("%s-%s-%s-%d.replay.json", prop, rec.v.Rule, sigHash(rec.v.Sig), rec.seed)
	p := filepath.Join(verifDir, "out", "replays", name)
	b, _ := json.MarshalIndent(rf, "", " ")
	os.WriteFile(p, b, 0o644)
	return p
}

func cmdReplay(args []string) int {
	if len(args) < 1 {
		usage()
	}
	b, err := os.ReadFile(args[0])
	if err != nil {
		fmt.Fprintln(os.Stderr, err)
		return 2
	}
	var rf kernel.ReplayFile
	if err := json.Unmarshal(b, &rf); err != nil {
		fmt.Fprintln(os.Stderr, err)
		return 2
	}
	prop := props[rf.Property]
	if prop == nil {
		fmt.Fprintln(os.Stderr, "unknown property", rf.Property)
		return 2
	}
	var sc *ScenSpec
	for i := range prop.Scens {
		if prop.Scens[i].ID == rf.Scenario {
			sc = &prop.Scens[i]
		}
	}
	if sc == nil {
		fmt.Fprintln(os.Stderr, "unknown scenario", rf.Scenario)
		return 2
	}
	if len(sc.Cmd) == 0 {
		if err := build(sc.Race); err != nil {
			fmt.Fprintln(os.Stderr, err)
			return 2
		}
	}
	tmp, _ := os.MkdirTemp("", "verifsim-")
	defer os.RemoveAll(tmp)
	var co childOut
	if len(rf.Tape) == 0 {
		co = runChild(sc, tmp, rf.Seed, 1, "", true, 0)
	} else {
		tf := writeTape(tmp, rf.Seed, rf.Tape)
		co = runChild(sc, tmp, rf.Seed, 1, tf, true, 0)
	}
	a := newAgg()
	a.add(sc, co)
	for k, recs := range a.vios {
		fmt.Printf("reproduced: %s\n  %s\n", k, head(recs[0].v.Detail, 2000))
	}
	if _, ok := a.vios[rf.Rule+"|"+rf.Sig]; ok {
		fmt.Printf("VIOLATION property=%s replay=%s\n", rf.Property, args[0])
		return 1
	}
	if len(a.trouble) > 0 {
		fmt.Fprintln(os.Stderr, strings.Join(a.trouble, "\n"))
		return 2
	}
	fmt.Println("replay did not reproduce the recorded violation (rule " + rf.Rule + " sig " + rf.Sig + ")")
	return 0
}

// ---- determinism self-test ---------------------------------------------------

func cmdDeterminism(args []string) int {
	if len(args) < 1 {
		usage()
	}
	fs := flag.NewFlagSet("determinism", flag.ExitOnError)
	seeds := fs.Int("seeds", 40, "number of seeds")
	fs.Parse(args[1:])
	var sc *ScenSpec
	for _, p := range props {
		for i := range p.Scens {
			if p.Scens[i].ID == args[0] {
				sc = &p.Scens[i]
			}
		}
	}
	if sc == nil {
		fmt.Fprintln(os.Stderr, "unknown scenario")
		return 2
	}
	if len(sc.Cmd) == 0 {
		if err := build(sc.Race); err != nil {
			fmt.Fprintln(os.Stderr, err)
			return 2
		}
	}
	tmp, _ := os.MkdirTemp("", "verifsim-")
	defer os.RemoveAll(tmp)
	type res struct {
		seed uint64
		outs [3]string
	}
	results := make([]res, *seeds)
	var wg sync.WaitGroup
	sem := make(chan struct{}, 16)
	for i := 0; i < *seeds; i++ {
		wg.Add(1)
		go func(i int) {
			defer wg.Done()
			sem <- struct{}{}
			defer func() { <-sem }()
			seed := uint64(7000000 + i)
			results[i].seed = seed
			for j, mp := range []int{1, 4, 16} {
				co := runChild(sc, tmp, seed, 1, "", true, mp)
				b, _ := json.Marshal(co.results)
				results[i].outs[j] = fmt.Sprintf("exit=%d %s", co.exit, b)
			}
		}(i)
	}
	wg.Wait()
	bad := 0
	for _, r := range results {
		if r.outs[0] != r.outs[1] || r.outs[0] != r.outs[2] {
			bad++
			fmt.Printf("DIVERGENCE seed %d\n", r.seed)
			if bad <= 2 {
				for j := range r.outs {
					os.WriteFile(filepath.Join(verifDir, "out", fmt.Sprintf("diverge-%s-%d-%d.json", sc.ID, r.seed, j)), []byte(r.outs[j]), 0o644)
				}
			}
		}
	}
	fmt.Printf("determinism %s: %d seeds x 3 processes (GOMAXPROCS 1/4/16), %d divergences\n", sc.ID, *seeds, bad)
	if bad > 0 {
		return 1
	}
	return 0
}

// ---- evidence ----------------------------------------------------------------

func writeEvidence(id string, p *PropSpec, tier string, seed uint64, a *agg, perScen map[string]int, wall, buildS float64, nViol, knownSeen int) {
	var samples []any
	for _, s := range a.samples {
		ev := s.Events
		if len(ev) > 60 {
			ev = ev[:60]
		}
		var lines []string
		for _, e := range ev {
			lines = append(lines, fmt.Sprintf("#%d t=%s %s %s", e.Seq, time.Duration(e.T), e.Kind, strings.Join(e.A, " ")))
		}
		samples = append(samples, map[string]any{"scenario": s.Scenario, "seed": s.Seed, "knobs": s.Knobs, "tape_len": len(s.Tape), "trace": lines})
	}
	if len(samples) == 0 {
		samples = append(samples, "no non-trivial run with an event log was produced")
	}
	zeroProbes := []string{}
	for _, pr := range p.ExpectProbes {
		if a.probes[pr] == 0 && a.faults[pr] == 0 {
			zeroProbes = append(zeroProbes, pr)
		}
	}
	runHours := wall / 3600
	cov := map[string]any{
		"evaluations":               a.runs,
		"distinct_nontrivial":       len(a.sigs),
		"rule":                      p.CoverageRule,
		"samples":                   samples,
		"runs_per_scenario":         perScen,
		"nontrivial_runs":           a.nontrivial,
		"distinct_interleavings":    len(a.allSigs),
		"distinct_abstract_states":  len(a.states),
		"simulated_seconds":         float64(a.simNs) / 1e9,
		"scheduler_steps":           a.steps,
		"runs_per_hour":             int(float64(a.runs) / maxf(runHours, 1e-9)),
		"seeds":                     map[string]any{"first": a.firstSeed, "last": a.lastSeed, "base": seed},
		"faults_fired":              a.faults,
		"yield_points_parked":       a.yields,
		"probes":                    a.probes,
		"probes_stuck_at_zero":      zeroProbes,
		"oracle_rule_evaluations":   a.rules,
		"components_real":           p.Real,
		"components_stubbed":        p.Stub,
		"known_findings_reobserved": knownSeen,
		"build_s":                   buildS,
	}
	ev := map[string]any{
		"property_id": id, "tier": tier, "seed": seed, "level": p.Level, "coverage": cov,
		"assumptions": p.Assumptions, "wall_s": wall, "violations": nViol,
	}
	os.MkdirAll(filepath.Join(verifDir, "evidence"), 0o755)
	b, _ := json.MarshalIndent(ev, "", " ")
	os.WriteFile(filepath.Join(verifDir, "evidence", id+".json"), b, 0o644)
}

func maxf(a, b float64) float64 {
	if a > b {
		return a
	}
	return b
}
