package main

// ScenSpec describes one scenario of a property's check.
type ScenSpec struct {
	ID           string
	Batch        int // runs per child process (0/1 = one process per run)
	Race         bool
	Cmd          []string // non-Go child (Python); same result protocol
	Shrink       bool
	QuickRuns    int
	QuickSecs    int
	ThoroughRuns int
	ThoroughSecs int
	CrashRule    string   // rule id for an engine crash of the child process
	HangRule     string   // rule id for a watchdog hang ("" = harness trouble)
	SeedFromZero bool     // seeds are enumeration indices 0..runs-1 (fault enumeration)
	Env          []string // extra environment of the child (read by the code under test at package init)
}

type PropSpec struct {
	Level        string
	Scens        []ScenSpec
	CoverageRule string
	Assumptions  []string
	Real         []string
	Stub         []string
	ExpectProbes []string
}

var props = map[string]*PropSpec{
	"C19": {
		Level:        "exploration",
		Scens:        []ScenSpec{{ID: "C19", Cmd: []string{"python3", "pysim/c19.py"}, Shrink: true, Batch: 250, QuickRuns: 6000, QuickSecs: 90, ThoroughRuns: 600000, ThoroughSecs: 600}},
		CoverageRule: "each run = the real Python FailSafe + TrafficFilter + RequestsHook wrapper, configured through the documented environment variables and the package's own wiring functions, and a seeded history of 5-40 application calls (success through the gateway, gateway-side failure by error header or connection error, application exception / timeout / KeyboardInterrupt, failing direct call), filter probes with arbitrary host strings (IPv6 literals, empty, numeric, unicode), clock advances around the cool-down end (-1 ms, exactly, +1 ms) and in-flight calls during which other calls open the breaker; DNS answers are scripted (public, private, loopback, 0.0.0.0, failure); non-trivial = at least one call went through the gateway; distinct = (settings, history) signatures among non-trivial runs",
		Assumptions: []string{
			"reference circuit breaker judges transitions: it may open only at the threshold of consecutive gateway-side failures (or on the first failure after a cool-down, when the earlier count may still stand), must open at the threshold counted since it last closed, must stay open exactly for the cool-down",
			"the x-lunar-allow per-request override header is not generated; allow-listed hosts resolve to public addresses",
			"unresolvable names and IPv6 literals: only 'never raises' and 'loopback/private never through the gateway' are judged",
			"concurrency of application threads is simulated by re-entrancy (other calls run while one call is inside the transport), Python threads are not scheduled",
		},
		Real:         []string{"lunar_interceptor fail_safe.py, traffic_filter.py, configuration.py, hooks/requests.py (RequestsHook._hook_module / _make_request), wiring functions of lunar_interceptor/__init__.py; the constructors of hooks/aiohttp.py and hooks/tornado.py (their registrations on the shared fail-safe)"},
		Stub:         []string{"requests (Session transport decides each call's outcome), yarl.URL (urllib based), aiohttp/multidict/tornado (far enough for their hooks to be constructed; no traffic), DNS resolver, clock", "the gateway itself"},
		ExpectProbes: []string{"gateway_failure", "application_exception", "dns_failure", "in_flight_call_overlaps_breaker_opening"},
	},
	"C15": {
		Level:        "exploration",
		Scens:        []ScenSpec{{ID: "C15", Env: []string{"ENGINE_ADMIN_PORT=18081"}, Batch: 100, QuickRuns: 20000, QuickSecs: 120, ThoroughRuns: 2000000, ThoroughSecs: 600}},
		CoverageRule: "each run = one generated access-log stream (5-120 records: methods, URLs whose sibling count crosses a small convergence threshold of 2-5, nested parameters, statuses, durations, consumer tags, interceptor strings, internal records) delivered to the real discovery.Run / State / BuildTree once as a single batch and 2-4 more times under seeded batch splits (incl. empty and singleton batches), half of them with restarts between batches after which only the state file survives (new State from the file, new URL tree); non-trivial = more non-internal records than the threshold; distinct = (stream, split, restart) signatures among non-trivial runs",
		Assumptions: []string{
			"averages are compared with 1e-3 relative tolerance (float32, count-weighted re-combination)",
			"timestamps are generated on whole seconds; after a restart the URL tree is rebuilt, so only totals and per-method totals are compared across restarts, per-endpoint equality only without restart",
			"torn or failed state-file writes are not injected: the property speaks of written-and-read-back state, not of crash atomicity",
		},
		Real:         []string{"aggregation-output-plugin discovery.Run, GetUpdatedAggregations, ConvergeAggregation, ExtractAggs, State persistence", "shared-model discovery Combine / persistence conversion", "toolkit-core urltree with assumed path parameters"},
		Stub:         []string{"fluent-bit (records enter at discovery.Run)", "the engine's admin endpoint (stub http.DefaultTransport: reachable / unreachable / 500; ENGINE_ADMIN_PORT set in the child)"},
		ExpectProbes: []string{"batch_split", "restart_with_only_state_file"},
	},
	"C18": {
		Level: "exploration",
		Scens: []ScenSpec{
			{ID: "C18R", Race: true, QuickRuns: 200, QuickSecs: 150, ThoroughRuns: 20000, ThoroughSecs: 900, CrashRule: "R3"},
			{ID: "C18A", Race: true, QuickRuns: 100, QuickSecs: 90, ThoroughRuns: 10000, ThoroughSecs: 600, CrashRule: "R3"},
			{ID: "C18P", Race: true, QuickRuns: 150, QuickSecs: 90, ThoroughRuns: 10000, ThoroughSecs: 600, CrashRule: "R3"},
			{ID: "C18L", QuickRuns: 300, QuickSecs: 60, ThoroughRuns: 20000, ThoroughSecs: 300},
			{ID: "C18V", QuickRuns: 400, QuickSecs: 60, ThoroughRuns: 20000, ThoroughSecs: 300},
			{ID: "C18Q", Batch: 50, QuickRuns: 600, QuickSecs: 60, ThoroughRuns: 60000, ThoroughSecs: 300},
			{ID: "C18S", QuickRuns: 2000, QuickSecs: 120, ThoroughRuns: 40000, ThoroughSecs: 900},
		},
		CoverageRule: "C18R (built with -race): 2-5 goroutines each driving 1-3 transactions (request, then response or proxy error) through shared flows, a grouped fixed-window quota and a concurrency quota of the real streams-mode HandlingDataManager, optionally a metrics read (flow invocations, quota counters read path) and a PUT /configuration reload at the same time; background GC/queue/unmanage goroutines run on the fake clock; C18A (-race): transaction lookups, policy reloads, a fail-safe revert and the two vacuum goroutines of the policies accessor; C18P (-race): 2-5 goroutines send SPOE request and response frames through the message handler of a policy-mode manager whose policies file (2-6 of: caching, response-based throttling, grouped strategy-based throttling, concurrency-based throttling, strategy-based queue, retry) was loaded by the gateway's own loader, optionally beside a policy reload; interleavings come from fake-time delays at every instrumented lock site and yield hook, a pure function of seed and call site; C18L: slots of the concurrency limiter taken and released while its vacuum goroutine passes, with simulated blocking (every lock taken through the simulator, tasks parked inside critical sections, a waiting writer shuts out readers): no deadlock, every operation returns; C18Q: requests of known and never-seen (remedy, group) pairs and reads of the quota gauge (Counters, the metrics callback of the strategy-based throttling remedy) interleaved at the lock sites of the rate-limit state: no operation panics, every one returns, the gauge after a round equals what was let through; C18V: key registrations run to completion while the vacuum goroutine (adopted as a task) is held at a lock site inside a pass on a tick at which entries are due; every registered key must have left the map a time-to-live and four ticks after the last registration; C18S: 2-3 overlapping transactions interleaved at lock sites by the token scheduler, outcome vector compared with all serial orders on fresh engines; non-trivial = every run (each has overlapping actors); distinct = (plan, delay parameters) signatures",
		Assumptions: []string{
			"the Go race detector (happens-before) is the invariant monitor for R1; a report counts when one of its stacks has a frame in lunar/...; the signature is the pair of top engine frames",
			"race-mode interleaving is by stateless fake-time delays, not by the token scheduler (token hand-off would add happens-before edges and hide races)",
			"serial equivalence uses the implementation itself as sequential specification over all N! orders (N <= 3) with the clock frozen",
		},
		Real:         []string{"routing.HandlingDataManager (verif constructor), streams engine, quota strategies + GC goroutines, metrics data, configuration reload path", "config.TxnPoliciesAccessor + MapVacuum", "Go race detector"},
		Stub:         []string{"HAProxy (simHAProxy)", "SPOE transport (goroutines call the streams branch of processRequest/processResponse directly)", "otel metric reader (the read path is invoked through a verif-only accessor)"},
		ExpectProbes: []string{"overlapping_transactions", "reload_during_transactions", "metrics_read_during_transactions", "policy_swap_during_transactions"},
	},
	"C05": {
		Level:        "exploration",
		Scens:        []ScenSpec{{ID: "C05", QuickRuns: 4000, QuickSecs: 120, ThoroughRuns: 150000, ThoroughSecs: 900, CrashRule: "R3"}},
		CoverageRule: "each run = one generated configuration in its own OS process: a well-formed flow skeleton plus 0-5 arbitrary extra connections between any endpoints in either direction (self-loops, back edges, cycles reachable under one condition, cycles in root-less response directions, undeclared names, bogus conditions), or pure noise; textual YAML mutations (duplicate key, missing parameter, dropped section, duplicate parameter); optional second flow; quota files with the usual mistakes. The gateway's own dry-run validation decides; accepted configurations are loaded for real under both load orders and driven with 10 transactions (random steering, empty / invalid JSON / 70 kB bodies, gzip header, odd paths) under a budget of 1000 processor executions per side; non-trivial = accepted by validation; distinct = configuration signatures among accepted runs; abstract states = rejection reasons and step counts",
		Assumptions: []string{
			"a processor-execution budget of 1000 per transaction side stands for 'bounded': graphs of this size have fewer than 20 paths",
			"rejected configurations are fine by definition; only accepted ones are judged",
			"flow references between flows are not generated",
		},
		Real:         []string{"validation.Validator (dry run used by validate_flows / load_flows / flows-validator)", "streams load path and executor", "structural + graph validation, quota validation"},
		Stub:         []string{"HAProxy/SPOE transport; the SPOE worker's missing recover is modelled by treating any engine panic as a violation"},
		ExpectProbes: []string{"accepted", "rejected"},
	},
	"C04": {
		Level:        "exploration",
		Scens:        []ScenSpec{{ID: "C04", QuickRuns: 1500, QuickSecs: 90, ThoroughRuns: 100000, ThoroughSecs: 900}},
		CoverageRule: "each run = 1-2 generated well-formed flows on one URL (1-4 request filters steered by headers, 0-2 early-response nodes, 0-3 response filters; branching, fan-out with equal conditions, joins, optional response root, optional quota system flow) loaded into the real streams engine under a load order chosen by the simulator, and 3-10 transactions with random steering (request, then provider response unless answered early); non-trivial = more than the root processor ran or an early response occurred; distinct = (graph, order, steering) signatures among non-trivial runs",
		Assumptions: []string{
			"reference interpreter over the YAML connections: depth-first in declaration order, follows exactly the connections whose condition equals the processor's output, an early-response node ends the whole request walk and the response walk of that flow starts at the target of its response connection; other user flows run their response direction from its root",
			"user flows on one URL run in load order on requests (the property does not fix their mutual order, so the reference uses the order the simulator chose) and each flow's sequence is compared separately",
			"after an early response the generated response carries no steering headers, so response-side filters report miss",
			"flow references (flow ... at start/end) are not generated",
		},
		Real: []string{"flow builder (connections -> nodes/edges), validations", "stream executor (recursive walk), request/response orchestration in streams.go", "Filter, GenerateResponse processors, quota system flow"},
		Stub: []string{"HAProxy/SPOE transport", "load order chosen by the simulator (verifhook.Order)"},
	},
	"C03": {
		Level:        "exploration",
		Scens:        []ScenSpec{{ID: "C03", QuickRuns: 1500, QuickSecs: 90, ThoroughRuns: 100000, ThoroughSecs: 900}},
		CoverageRule: "each run = 1-4 generated user flows over a small URL algebra (2 hosts, literal segments x/y/z, one-segment parameters, trailing wildcard, several flows on one URL) with optional method / header / query / status constraints, loaded into the real streams engine under 2-4 load orders chosen by the simulator through the flow.build Order seam (load, then reloads), and 6-24 transactions (request and response side) derived from the patterns with extra / missing / replaced segments; non-trivial = at least one flow was applied; distinct = (configuration, order, transaction) signatures among non-trivial runs; abstract states = applied-flow vectors",
		Assumptions: []string{
			"independent matcher: literal segment equal, {p} = exactly one segment, trailing /* = one or more further segments; whether /* also accepts the empty suffix is left undecided (neither direction is judged there)",
			"header and query constraints are judged on the request side, status constraints on the response side (the response message carries no request headers)",
			"the 'if' direction is exempt when a configured pattern has a literal segment where the flow's pattern has a parameter or wildcard (more specific literal pattern alongside); the exemption is deliberately generous",
			"methods generated are GET/POST/PUT (a flow without method list is taken to accept them); sample_percentage is never set",
		},
		Real:         []string{"streams.Stream load path (flow builder, filter tree, toolkit-core/urltree insert + flow traversal)", "filter qualification (method, headers, query, status)", "stream executor, MockProcessor"},
		Stub:         []string{"HAProxy/SPOE transport", "load order (map iteration) replaced by the simulator's choice via verifhook.Order"},
		ExpectProbes: []string{"load_order_permutation", "shadow_exemption_used"},
	},
	"C08": {
		Level: "fault_enumeration",
		Scens: []ScenSpec{
			{ID: "C08E", SeedFromZero: true, QuickRuns: 1560, QuickSecs: 150, ThoroughRuns: 1560, ThoroughSecs: 300},
			{ID: "C08S", QuickRuns: 600, QuickSecs: 90, ThoroughRuns: 200000, ThoroughSecs: 900},
		},
		CoverageRule: "C08E enumerates endpoint {/configuration,/apply_flows} x payload class {change, add, remove, undecodable base64, flow failing validation, bad quota, gateway-config-only, flow+quota change, shorter content for an existing file} x every fault point the fault-free update passes through (each file-system remove/mkdir/create/torn write/read and each HAProxy admin/health call, listed by a recording run), one fault per run, index 0 = fault-free; C08S draws 0-3 simultaneous faults and up to 6 probe transactions that overlap the update, parked at the published-but-not-initialised point, at fault points and at instrumented lock sites; non-trivial = a fault fired or the payload is one the gateway must reject; distinct = (endpoint, class, fault set, schedule) signatures among non-trivial runs",
		Assumptions: []string{
			"the disk state compared is the configuration tree the gateway manages: flows/, quotas/, path_params/, the gateway config file and the user metrics file",
			"behaviour is compared on a fixed probe set of 6 transactions chosen to distinguish old and new configuration",
			"a fault is an error returned by the call (writes additionally leave a torn half-written file); the process itself does not crash (crash consistency of single writes is outside the property as stated)",
		},
		Real:         []string{"routing.HandlingDataManager handlers /configuration and /apply_flows, reloadFlows, initializeStreams", "config.FileSystemOperation on a real temporary directory", "streams validation (dry run) and engine load", "metrics manager reload"},
		Stub:         []string{"HAProxy admin API + health check (simHAProxy)", "otel HTTP server, syslog writer, doctor, Lunar Hub (not constructed)", "SPOE decoding (probes enter at the streams branch of processRequest)"},
		ExpectProbes: []string{"fs.write", "fs.create", "fs.remove", "fs.read", "fs.mkdir", "haproxy.500", "probe_during_update"},
	},
	"C20": {
		Level: "exploration",
		Scens: []ScenSpec{{ID: "C20", QuickRuns: 2000, QuickSecs: 60, ThoroughRuns: 200000, ThoroughSecs: 600},
			{ID: "C20D", QuickRuns: 400, QuickSecs: 60, ThoroughRuns: 40000, ThoroughSecs: 300}},
		CoverageRule: "each run = the real StateChangeWatcher goroutine on the fake clock with generated settings (consecutive 1-5, stable period 0-20 s, interval 0.5-5 s, cool-down 0-60 s) and a scripted health predicate of 10-80 observations (steady with a change, flapping below the thresholds, random persistence, long runs); non-trivial = at least one reaction fired; distinct = (settings, script) signatures among non-trivial runs",
		Assumptions: []string{
			"trace oracle only: every reaction must be justified by the recorded observations (no mirrored automaton); absence of a reaction is never a violation",
			"the stable period is measured from the first observation of the current run of equal observations",
		},
		Real: []string{"failsafe.StateChangeWatcher.run goroutine", "RealClock on synctest fake time"},
		Stub: []string{"health predicate (scripted from the tape)", "reactions (recorded only; the real revert reactions are exercised by C11)"},
	},
	"C11": {
		Level: "exploration",
		Scens: []ScenSpec{{ID: "C11", QuickRuns: 6000, QuickSecs: 120, ThoroughRuns: 200000, ThoroughSecs: 900},
			{ID: "C11H", QuickRuns: 300, QuickSecs: 60, ThoroughRuns: 30000, ThoroughSecs: 300},
			{ID: "C11L", QuickRuns: 300, QuickSecs: 60, ThoroughRuns: 20000, ThoroughSecs: 300}},
		CoverageRule: "C11L: lookups, reloads and fail-safe reverts as tasks with simulated blocking (locks taken through the simulator, tasks parked inside critical sections, the vacuum goroutines join in when they meet a held lock): every operation returns, no deadlock, second lookups inside the retention name the first version; C11: each run = the real TxnPoliciesAccessor (two MapVacuum goroutines, 5 s tick, 30 s retention) fed by the real file loader, and a seeded history of transaction request / response lookups, apply-policies (ReloadFromFile), apply with an HAProxy failure, revert-to-diagnosis-free / revert-to-last-loaded, with clock targets on vacuum ticks and at the retention -5 s / -1 ms / -1 ns / +1 ns / +6 s, single or in concurrent groups interleaved at instrumented lock sites; non-trivial = at least one response was judged inside the retention period; distinct = schedule signatures among non-trivial runs",
		Assumptions: []string{
			"retention is 30 s from the first lookup of a transaction; responses later than that are not judged",
			"at most two configuration changes overlap (an admin call and a fail-safe revert run in different goroutines), at most one of them writes the policies file; after overlapping changes every marker they touched is accepted as newest until a change that runs alone installs a version",
			"a transaction first seen concurrently with an apply may get the old or the new version",
		},
		Real:         []string{"config.TxnPoliciesAccessor", "toolkit-core/vacuum.MapVacuum (background goroutines)", "policies file loader, validator, persistLoaded, BuildPolicyData", "RealClock on synctest fake time"},
		Stub:         []string{"HAProxy admin API and health check (in-memory simHAProxy behind http.DefaultClient)"},
		ExpectProbes: []string{"concurrent_group", "haproxy_failure_during_apply"},
	},
	"C17": {
		Level: "exploration",
		Scens: []ScenSpec{
			{ID: "C17P", Batch: 50, QuickRuns: 3000, QuickSecs: 60, ThoroughRuns: 300000, ThoroughSecs: 400},
			{ID: "C17F", QuickRuns: 600, QuickSecs: 60, ThoroughRuns: 60000, ThoroughSecs: 500},
			{ID: "C17D", QuickRuns: 400, QuickSecs: 60, ThoroughRuns: 40000, ThoroughSecs: 300},
		},
		CoverageRule: "C17D: real runner.DispatchOnRequest / DispatchOnResponse with real services.PoliciesServices, a fixed-response remedy that answers early with a retry-eligible status and a retry remedy; a logical call is re-sent (fresh transaction id, same sequence id) while a retry is asked for; C17P: real policy-mode RetryPlugin (state in MemoryCache with TTL cooldown+31 s), seeded status histories over 3 interleaved sequence ids, id reuse, clock gaps at the state's lifetime -1 ns / exactly / +1 ns; C17F: real streams engine with response flow Filter(500-599) -> Retry, cool-down waits on fake time, responses of different sequences concurrently in flight and interleaved at instrumented lock sites; non-trivial = a sequence reached exhaustion; distinct = schedule signatures among non-trivial runs",
		Assumptions: []string{
			"a logical call starts with a response whose transaction id equals its sequence id (policy mode) / after a failure verdict (flows mode)",
			"after the retry state's lifetime (cooldown + 31 s) has passed both continuing and forgetting are accepted",
			"flows mode: the retry conditions live in the flow's Filter, so 'an out-of-condition response ends the sequence' is checked in policy mode only; in flows mode only 'never triggers a retry'",
			"responses of one sequence are sequential (a sequence is one logical call); only different sequences overlap",
		},
		Real:         []string{"services/remedies.RetryPlugin + MemoryCache", "streams engine: Filter and Retry processors, flow context store", "RealClock on synctest fake time"},
		Stub:         []string{"HAProxy Lua retry loop (the harness plays the proxy: it feeds the next response of the sequence)"},
		ExpectProbes: []string{"concurrent_sequences_in_cooldown", "id_reused_mid_call"},
	},
	"C12": {
		Level:        "exploration",
		Scens:        []ScenSpec{{ID: "C12", Batch: 25, QuickRuns: 3000, QuickSecs: 90, ThoroughRuns: 200000, ThoroughSecs: 600}},
		CoverageRule: "each run = the real CachingPlugin or ResponseBasedThrottlingPlugin over the real MemoryCache and a seeded history of 6-40 store/lookup events over {GET,POST} x 3 URLs x 2 path-parameter values with unique bodies, clock targets at expiry -1 ns / exactly / +1 ns (so re-stores land right at expiry with the old sleeper pending), ~0.3 MB bodies against a 1 MB cache in size runs, concurrent groups interleaved at instrumented lock sites; non-trivial = at least one replay from memory; distinct = schedule signatures among non-trivial runs",
		Assumptions: []string{
			"a miss is always legal (the property is only-if); an entry is fresh up to and including the instant stored_at + ttl",
			"an absolute-epoch Retry-After has whole-second resolution (the reference computes the time-to-live from whole unix seconds like the provider header)",
			"cache size is judged on body bytes of the entries that currently replay (a lower bound of their accounted size)",
		},
		Real:         []string{"services/remedies.CachingPlugin", "services/remedies.ResponseBasedThrottlingPlugin", "utils.MemoryCache incl. sleeper goroutines", "RealClock on synctest fake time"},
		Stub:         []string{"plugin dispatcher / HAProxy transport (events enter at OnRequest/OnResponse; the dispatcher's hand-over of a replay to the remedy's response side is done by the harness)"},
		ExpectProbes: []string{"concurrent_group"},
	},
	"C09": {
		Level:        "exploration",
		Scens:        []ScenSpec{{ID: "C09", Batch: 50, QuickRuns: 4000, QuickSecs: 60, ThoroughRuns: 400000, ThoroughSecs: 600}},
		CoverageRule: "each run = 1-3 generated throttling remedies (allowed 1-5, window 1-60 s, optional status, optional group allocation table with fractional percentages and each default behaviour) on the real StrategyBasedThrottlingPlugin + RateLimitState, and a seeded history of 5-40 requests at instants on the epoch grid (k*W exactly, +-1 ns, mid-window, several windows later) plus concurrent bursts interleaved at instrumented lock sites; non-trivial = at least one rejection or burst; distinct = schedule signatures among non-trivial runs; abstract states = (count, limit) pairs seen",
		Assumptions: []string{
			"a request at instant t belongs to the grid window floor(t/W) (windows are [kW,(k+1)W))",
			"the group share is ceil(allowed * percentage / 100) computed in exact integer arithmetic on tenths of a percent",
			"window size changes between requests are not generated",
		},
		Real:         []string{"services/remedies.StrategyBasedThrottlingPlugin", "utils/limit.RateLimitState / singleRateLimitState", "MD5 obfuscator", "RealClock on synctest fake time"},
		Stub:         []string{"otel meter (nil)", "plugin dispatcher / HAProxy transport (requests enter at plugin.OnRequest)"},
		ExpectProbes: []string{"concurrent_burst"},
	},
	"C06": {
		Level: "exploration",
		Scens: []ScenSpec{{ID: "C06", QuickRuns: 1500, QuickSecs: 120, ThoroughRuns: 100000, ThoroughSecs: 900, CrashRule: "R5", HangRule: ""},
			{ID: "C06L", QuickRuns: 400, QuickSecs: 90, ThoroughRuns: 30000, ThoroughSecs: 400, CrashRule: "R5", HangRule: ""}},
		CoverageRule: "C06L: the same processor with simulated blocking - every goroutine takes its locks through the simulator, tasks are parked inside critical sections, a goroutine that cannot get a lock is parked as blocked and a waiting writer shuts out new readers; judged on liveness (a verdict for every request once faults stop) and on deadlock (every live task waits for a lock); C06: each run = a generated Queue processor (queue_size 1-4, ttl 1-5 s, optional priority groups) on a fixed-window quota (max 1-2 per 1-5 s) in the real streams engine; 2-10 arrivals with priorities, clock targets on/next to the 100 ms processing ticks, quota window ends and TTL expiries, stalls of request goroutines at instrumented lock sites while time passes, context cancel at a random step; in a third of the runs the engine's own goroutines (processing loop, TTL watcher, removal) are scheduled at lock sites too, the loop is driven on until it holds a waiting request and the clock is moved to that request's expiry (TTL elapsing inside one quota check), and stalling the loop or the watcher across a clock jump is an injected fault; non-trivial = more arrivals than the quota allows per window and at least one grant; distinct = schedule signatures among non-trivial runs",
		Assumptions: []string{
			"scheduling slack for a verdict is 300 ms (three processing ticks) of time in which neither the processing loop nor the TTL watcher is stalled by the simulator; stall intervals that begin before that are waited out (chained); a stall of the request's own goroutine suspends its deadline",
			"order is judged at the decision point: when the loop takes a request off the heap (mq.pop, under the queue lock) for the attempt that admits it, no better-ranked request is in the heap; rank = (priority, instant of first push), equal instants are unordered",
			"a grant needs a quota admission of its own: a counted fixed-window increment for that request after its last pop (fw.inc event)",
			"arrival order within one priority is the order in which requests entered the queue (queue.enqueued events)",
			"under the verif build tag the TTL watcher's zero-length wait gets +1 ns (verifhook.TimerSlack): on a fake clock timers fire exactly on time and the watcher's `now.After(expireAt)` poll would otherwise spin at one instant",
			"requests arriving after shutdown are outside the property",
		},
		Real:         []string{"streams.Stream", "Queue processor incl. processing loop, RequestWatcher (TTL), removal goroutines", "in-memory shared priority queue", "fixed-window quota", "GenerateResponse"},
		Stub:         []string{"HAProxy/SPOE transport", "otel meters (disabled)"},
		ExpectProbes: []string{"context_cancel", "stall_at_lock_site", "engine_goroutine_stalled_at_lock_site", "ttl_elapsed_while_loop_holds_request"},
	},
	"C02": {
		Level:        "exploration",
		Scens:        []ScenSpec{{ID: "C02", QuickRuns: 6000, QuickSecs: 150, ThoroughRuns: 100000, ThoroughSecs: 900}},
		CoverageRule: "each run = a generated concurrency quota (max 1-3, expiry 2-5 s, GC 1-2 s, optional parent quota, optional second flow answering early after admission) in the real streams engine and a seeded history of request / response / proxy-error / abandon / duplicate-end / instance-left events with clock targets around expiry and expiry+GC, single or in concurrent groups interleaved at instrumented lock sites; capacity probes measure free slots at quiescent points; non-trivial = at least one refusal or early answer occurred; distinct = schedule signatures among non-trivial runs",
		Assumptions: []string{
			"a slot must be held until request_expiration_sec (+10 ms) after admission unless released, and may be held until one GC interval (+1 s slack) later",
			"under concurrency a transaction certainly holds its slot from the return of its admitted request to the invocation of its end event (sequence numbers, not wall time)",
			"after the instance-left fault all open transactions may have been collected",
		},
		Real:         []string{"streams.Stream", "Limiter / GenerateResponse / Filter / QuotaProcessorDec processors", "quota concurrent strategy incl. GC goroutine and parent quota", "ResourceManagement.OnRequestDrop, Stream.OnError", "in-memory shared state"},
		Stub:         []string{"cluster liveness (single fake instance that can drop out)", "HAProxy/SPOE transport"},
		ExpectProbes: []string{"concurrent_group", "abandon", "proxy_error", "duplicate_end", "instance_left_cluster"},
	},
	"C01": {
		Level:        "exploration",
		Scens:        []ScenSpec{{ID: "C01", QuickRuns: 1200, QuickSecs: 90, ThoroughRuns: 100000, ThoroughSecs: 900}},
		CoverageRule: "each run = one generated quota hierarchy (1-3 levels, max 1-4, window 1-3 s/min, optional header grouping) loaded into the real streams engine, then a seeded history of 5-40 requests at instants chosen on/next to the model's window ends, plus concurrent bursts interleaved at instrumented lock sites; a run is non-trivial if at least one request was refused or a burst ran; distinct = distinct schedule signatures among non-trivial runs; abstract states = per-quota window fill vectors",
		Assumptions: []string{
			"a window is anchored at the first request reaching the quota after the previous window ended, at the exact instant or truncated to whole seconds (two candidate readings; a violation needs both to be contradicted)",
			"hierarchy semantics as stated in the property's anchor: the child counts first, the increment propagates to the parent, the verdict is the conjunction",
			"exactness (no spurious refusal) is judged only for one-at-a-time requests; concurrent bursts are judged on the bound only and are followed by a gap that lets every window expire",
			"every quota level has its own URL, so a request passes exactly one Limiter of a chain (DESIGN.md C01, shape restriction)",
		},
		Real:         []string{"streams.Stream (filter tree, flow builder, executor)", "Limiter and GenerateResponse processors", "quota fixed-window strategy incl. parent/child and header groups", "in-memory shared state (AtomicIncWindow)", "RealClock on synctest fake time"},
		Stub:         []string{"HAProxy/SPOE transport (transactions enter at Stream.ExecuteFlow)", "Lunar Hub, otel exporters"},
		ExpectProbes: []string{"concurrent_burst"},
	},
	"C10": {
		Level: "exploration",
		Scens: []ScenSpec{{ID: "C10", QuickRuns: 4000, QuickSecs: 60, ThoroughRuns: 150000, ThoroughSecs: 900},
			{ID: "C10L", QuickRuns: 400, QuickSecs: 60, ThoroughRuns: 30000, ThoroughSecs: 300}},
		CoverageRule: "C10L: the same queue with simulated blocking (the requests and the roll-over goroutine take the queue mutex through the simulator, are parked inside critical sections and wait for locks as parked tasks; a waiting writer shuts out new readers): every request returns once faults stop, no deadlock; C10: each run = one seeded history (2-9 arrivals with priorities, clock targets on/around window ends and TTL expiries, stalls at the hand-off point and at every instrumented lock site) against the real StrategyBasedQueuePlugin + DelayedPriorityQueue on a fake clock; a run is non-trivial if more requests arrived than the window quota and at least one grant happened; distinct = distinct (task, yield point, clock target) schedule signatures among non-trivial runs",
		Assumptions: []string{
			"interleavings are explored at mutex acquire/release boundaries, the explicit hand-off yield point and every blocking operation, not at every memory access",
			"a stall imposed by the simulator is a fault: R1 is judged on what the roll-over did with the window's slots, not on wall time",
			"exact ties between a TTL timer and a window roll-over at the same instant are exempt (Go select picks randomly)",
		},
		Real:         []string{"services/remedies.StrategyBasedQueuePlugin", "utils/queue.DelayedPriorityQueue (roll-over goroutine, TTL timers)", "toolkit-core/clock.RealClock on synctest fake time"},
		Stub:         []string{"otel meter (no-op)", "HAProxy/SPOE transport (requests enter at plugin.OnRequest)"},
		ExpectProbes: []string{"handoff_missed_while_waiting", "expired_entry_popped", "stall_at_handoff"},
	},
}
