module verifsim

go 1.26.8

require (
	github.com/rs/zerolog v1.31.0
	go.opentelemetry.io/otel/metric v1.21.0
	lunar/aggregation-plugin v0.0.0
	lunar/engine v0.0.0
	lunar/shared-model v0.0.0
	lunar/toolkit-core v0.0.0
)

require (
	github.com/gabriel-vasile/mimetype v1.4.3 // indirect
	github.com/go-playground/locales v0.14.1 // indirect
	github.com/go-playground/universal-translator v0.18.1 // indirect
	github.com/go-playground/validator/v10 v10.16.0 // indirect
	github.com/goccy/go-json v0.10.2 // indirect
	github.com/gorilla/websocket v1.5.1 // indirect
	github.com/leodido/go-urn v1.2.4 // indirect
	github.com/mattn/go-colorable v0.1.13 // indirect
	github.com/mattn/go-isatty v0.0.20 // indirect
	github.com/negasus/haproxy-spoe-go v1.0.5 // indirect
	github.com/ohler55/ojg v1.26.1 // indirect
	github.com/pkg/errors v0.9.1 // indirect
	github.com/samber/lo v1.44.0 // indirect
	github.com/valyala/fastjson v1.6.4 // indirect
	go.opentelemetry.io/otel v1.21.0 // indirect
	golang.org/x/crypto v0.24.0 // indirect
	golang.org/x/exp v0.0.0-20231214170342-aacd6d4b4611 // indirect
	golang.org/x/net v0.26.0 // indirect
	golang.org/x/sys v0.30.0 // indirect
	golang.org/x/text v0.16.0 // indirect
	gopkg.in/yaml.v3 v3.0.1 // indirect
)

replace lunar/engine => /repo/proxy/src/services/lunar-engine

replace lunar/toolkit-core => /repo/proxy/src/libs/toolkit-core

replace lunar/shared-model => /repo/proxy/src/libs/shared-model

replace lunar/aggregation-plugin => /repo/proxy/src/services/aggregation-output-plugin
