// Package proto holds the types exchanged between a simulated run (child
// process) and the orchestrator.
package proto

import (
	"encoding/json"
	"os"
)

// Event is one observation, totally ordered by Seq.
type Event struct {
	Seq  uint64   `json:"q"`
	T    int64    `json:"t"` // fake nanoseconds since the start of the run
	Kind string   `json:"k"`
	A    []string `json:"a,omitempty"`
}

// Violation is a failed oracle rule. Sig identifies the specific failure
// (call site, schedule shape, payload class ...) for known-finding matching.
type Violation struct {
	Rule   string `json:"rule"`
	Sig    string `json:"sig"`
	Detail string `json:"detail"`
}

type Stats struct {
	SimNs      int64          `json:"sim_ns"`
	Steps      int            `json:"steps"`
	Faults     map[string]int `json:"faults,omitempty"` // fault kinds that actually fired
	Yields     map[string]int `json:"yields,omitempty"` // tasks parked per yield point
	Probes     map[string]int `json:"probes,omitempty"` // rare-branch probes
	Rules      map[string]int `json:"rules,omitempty"`  // oracle rule evaluations
	Sig        string         `json:"sig"`              // interleaving signature
	States     []string       `json:"states,omitempty"` // distinct abstract states seen
	Nontrivial bool           `json:"nontrivial"`
}

// Result is what one simulated run reports to the orchestrator (one JSON line).
type Result struct {
	Scenario   string            `json:"scenario"`
	Seed       uint64            `json:"seed"`
	Tape       []int             `json:"tape"`
	Knobs      map[string]any    `json:"knobs,omitempty"`
	Violations []Violation       `json:"violations,omitempty"`
	HarnessErr string            `json:"harness_err,omitempty"`
	Stats      Stats             `json:"stats"`
	Events     []Event           `json:"events,omitempty"`
	Files      map[string]string `json:"files,omitempty"` // generated configuration, inline
}

// AppendResult appends r as one JSON line to path.
func AppendResult(path string, r Result) error {
	f, err := os.OpenFile(path, os.O_APPEND|os.O_CREATE|os.O_WRONLY, 0o644)
	if err != nil {
		return err
	}
	defer f.Close()
	b, err := json.Marshal(r)
	if err != nil {
		return err
	}
	b = append(b, '\n')
	_, err = f.Write(b)
	return err
}

// ReplayFile is the on-disk replay format.
type ReplayFile struct {
	Property    string            `json:"property"`
	Scenario    string            `json:"scenario"`
	Seed        uint64            `json:"seed"`
	Tape        []int             `json:"tape"`
	Rule        string            `json:"rule"`
	Sig         string            `json:"sig"`
	Detail      string            `json:"detail"`
	Minimised   bool              `json:"minimised"`
	OrigTapeLen int               `json:"orig_tape_len"`
	Knobs       map[string]any    `json:"knobs,omitempty"`
	Events      []Event           `json:"events,omitempty"`
	Files       map[string]string `json:"files,omitempty"`
	Note        string            `json:"note,omitempty"`
}
