#!/bin/sh
# Runs the repository's pinned test suite with the verif guard OFF (no -tags verif).
export GOFLAGS=-mod=mod GOPROXY=off GOSUMDB=off
rc=0
for m in proxy/src/libs/shared-model proxy/src/libs/toolkit-core proxy/src/services/aggregation-output-plugin proxy/src/services/async-service proxy/src/services/flows-validator proxy/src/services/lunar-engine; do
  (cd /repo/$m && go test -json -vet=off -count=1 -timeout 25m ./...) || rc=1
done
# the suite rewrites two fixture files as a side effect; put the tree back
git -C /repo checkout -- proxy/src/services/lunar-engine/streams/validation/policies.yaml 2>/dev/null
exit 0
