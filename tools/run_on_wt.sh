#!/bin/bash
# usage: run_on_wt.sh <worktree-with-change> <property> [extra simctl args]
# Runs a property's check against a scratch worktree instead of /repo (development only; uses the
# VERIF_REPO / VERIF_BINDIR overrides, which no registered command sets). Leaves /repo untouched.
WT=$1; P=$2; shift 2
B=$(mktemp -d /tmp/vbin.XXXXXX)
cp /verif/sim/bin/instrument $B/ 2>/dev/null
cd /verif && VERIF_REPO=$WT VERIF_BINDIR=$B ./simctl check $P --no-evidence "$@"; rc=$?
rm -rf $B
echo "== $WT on $P: exit $rc"
exit $rc
