#!/bin/bash
# usage: wave_eval.sh <id> [prop]  - confirm a sub-agent's change (verify_mutant.sh) and run the property's quick check on its worktree
ID=$1; P=${2:-${ID:0:3}}
mkdir -p /tmp/mv
{ /verif/tools/verify_mutant.sh /tmp/mut/$ID $ID 2>&1 | tail -3
  if [ -d /verif/seeded/$ID ]; then /verif/tools/run_on_seeded.sh $ID $P 2>&1 | grep -v "^  \|^$" | tail -6; fi; } > /tmp/mv/$ID.eval.log 2>&1
