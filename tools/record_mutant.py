#!/usr/bin/env python3
"""usage: record_mutant.py <seeded-id> <property> [tier-args...]
Applies the seeded change to /repo, runs the property's check (no evidence), reverts, and writes
/verif/seeded/<id>/meta.json with what was run and what the check reported."""
import json, os, re, subprocess, sys
sid, prop = sys.argv[1], sys.argv[2]
extra = sys.argv[3:]
d = '/verif/seeded/%s' % sid
meta_path = d + '/meta.json'
meta = json.load(open(meta_path)) if os.path.exists(meta_path) else {}
if subprocess.run(['git', '-C', '/repo', 'diff', '--quiet']).returncode != 0:
    sys.exit('/repo has uncommitted changes')
r = subprocess.run(['git', '-C', '/repo', 'apply', "--exclude=*policies.yaml", d + '/patch.diff'], capture_output=True, text=True)
if r.returncode != 0:
    sys.exit('patch does not apply: ' + r.stderr)
try:
    p = subprocess.run(['/verif/simctl', 'check', prop, '--no-evidence'] + extra, capture_output=True, text=True, cwd='/verif')
finally:
    subprocess.run(['git', '-C', '/repo', 'checkout', '--', '.'])
out = p.stdout
rules = sorted(set(re.findall(r'rule=(\S+) sig=(.+?) seed=', out)))
summary = [l for l in out.splitlines() if l.startswith(prop + ' tier=')]
head = subprocess.run(['git', '-C', '/repo', 'log', '--format=%h', '-1'], capture_output=True, text=True).stdout.strip()
meta.update({
    'id': sid, 'breaks_property': prop,
    'detected': p.returncode == 1,
    'check_exit': p.returncode,
    'violations_reported': ['%s %s' % x for x in rules],
    'check_summary': summary[-1] if summary else '',
    'ran': 'git -C /repo apply seeded/%s/patch.diff; ./simctl check %s --no-evidence %s; git -C /repo checkout -- .  (repo HEAD %s)' % (sid, prop, ' '.join(extra), head),
    'confirmed_by': 'tools/verify_mutant.sh: patch applies and builds in a scratch worktree of /repo HEAD, demo passes without and fails with the patch, pinned test-suite of the touched module still passes',
})
meta.setdefault('needs_to_manifest', '')
json.dump(meta, open(meta_path, 'w'), indent=1)
print(sid, prop, 'DETECTED' if p.returncode == 1 else 'exit %d' % p.returncode, meta['violations_reported'])
