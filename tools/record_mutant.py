#!/usr/bin/env python3
"""usage: record_mutant.py <seeded-id> <property> [tier-args...]
Applies the seeded change to a fresh scratch worktree of /repo HEAD, runs the property's check against that
worktree (development overrides VERIF_REPO / VERIF_BINDIR; /repo itself is not touched, so several of these
may run side by side), removes the worktree and writes /verif/seeded/<id>/meta.json with what was run and
what the check reported."""
import json, os, re, subprocess, sys, tempfile, shutil
sid, prop = sys.argv[1], sys.argv[2]
extra = sys.argv[3:]
d = '/verif/seeded/%s' % sid
meta_path = d + '/meta.json'
meta = json.load(open(meta_path)) if os.path.exists(meta_path) else {}
head = subprocess.run(['git', '-C', '/repo', 'log', '--format=%h', '-1'], capture_output=True, text=True).stdout.strip()
os.makedirs('/tmp/sw', exist_ok=True)
wt = '/tmp/sw/rec-%s-%d' % (sid, os.getpid())
bindir = tempfile.mkdtemp(prefix='vbin.', dir='/tmp')
import time
for attempt in range(20):
    if subprocess.run(['git', '-C', '/repo', 'worktree', 'add', '--detach', wt, 'HEAD'], capture_output=True).returncode == 0:
        break
    time.sleep(0.5 + attempt * 0.3)
else:
    sys.exit('git worktree add failed')
try:
    r = subprocess.run(['git', '-C', wt, 'apply', "--exclude=*policies.yaml", d + '/patch.diff'], capture_output=True, text=True)
    if r.returncode != 0:
        meta.update({'id': sid, 'breaks_property': sid[:3], 'applies_to_head': False, 'detected': None,
                     'ran': 'patch.diff no longer applies to /repo HEAD %s: %s' % (head, r.stderr.strip().splitlines()[0] if r.stderr.strip() else '')})
        json.dump(meta, open(meta_path, 'w'), indent=1)
        print(sid, prop, 'PATCH DOES NOT APPLY')
        sys.exit(0)
    if os.path.exists('/verif/sim/bin/instrument'):
        shutil.copy('/verif/sim/bin/instrument', bindir)
    env = dict(os.environ, VERIF_REPO=wt, VERIF_BINDIR=bindir)
    p = subprocess.run(['/verif/simctl', 'check', prop, '--no-evidence'] + extra, capture_output=True, text=True, cwd='/verif', env=env)
finally:
    subprocess.run(['git', '-C', '/repo', 'worktree', 'remove', '--force', wt], capture_output=True)
    shutil.rmtree(bindir, ignore_errors=True)
out = p.stdout
rules = sorted(set(re.findall(r'rule=(\S+) sig=(.+?) seed=', out)))
summary = [l for l in out.splitlines() if l.startswith(prop + ' tier=')]
meta.update({
    'id': sid, 'breaks_property': meta.get('breaks_property', sid[:3]), 'applies_to_head': True,
    'detected': p.returncode == 1,
    'detected_by': prop,
    'check_exit': p.returncode,
    'violations_reported': ['%s %s' % x for x in rules],
    'check_summary': summary[-1] if summary else '',
    'ran': 'scratch worktree of /repo HEAD %s + git apply seeded/%s/patch.diff; VERIF_REPO=<worktree> ./simctl check %s --no-evidence %s; worktree removed' % (head, sid, prop, ' '.join(extra)),
    'confirmed_by': 'tools/verify_mutant.sh: patch applies and builds in a scratch worktree of /repo HEAD, demo passes without and fails with the patch, pinned test-suite of the touched module still passes',
})
meta.setdefault('needs_to_manifest', '')
json.dump(meta, open(meta_path, 'w'), indent=1)
print(sid, prop, 'DETECTED' if p.returncode == 1 else 'exit %d' % p.returncode, meta['violations_reported'])
