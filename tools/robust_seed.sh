#!/bin/bash
# usage: robust_seed.sh <seed> <id>:<prop> ...   - run each seeded change's quick check with another
# VERIF_SEED (development aid: is the detection robust against the choice of seeds?). Prints one line each.
S=$1; shift
printf "%s\n" "$@" | xargs -P 2 -I{} bash -c 'x={}; id=${x%%:*}; p=${x##*:}; out=$(VERIF_SEED='$S' /verif/tools/run_on_seeded.sh $id $p 2>&1); rc=$(echo "$out" | grep -o "exit [0-9]*$" | tail -1); echo "$id $p seed='$S' $rc $(echo "$out" | grep -c "^VIOLATION")"'
