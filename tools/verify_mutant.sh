#!/bin/bash
# usage: verify_mutant.sh <agent-worktree> <id>
# Confirms, in a fresh scratch worktree of /repo HEAD: patch applies and compiles, the pinned suite still
# passes with it, the demo passes without it and fails with it. On success stores /verif/seeded/<id>/.
set -u
AW=$1; ID=$2
export GOFLAGS=-mod=mod GOPROXY=off GOSUMDB=off
S=/tmp/mv/$ID
rm -rf $S; git -C /repo worktree prune; git -C /repo worktree add --detach $S HEAD >/dev/null 2>&1 || { echo "worktree failed"; exit 2; }
cleanup(){ git -C /repo worktree remove --force $S >/dev/null 2>&1; }
trap cleanup EXIT
# demo files = untracked files of the agent worktree outside MUT/
mapfile -t DEMOS < <(git -C $AW status --short --untracked-files=all | awk '$1=="??"{print $2}' | grep -v '^MUT/' | grep -v 'streams/policies.yaml')
echo "demo files: ${DEMOS[*]}"
PKGS=()
for d in "${DEMOS[@]}"; do mkdir -p $S/$(dirname $d); cp $AW/$d $S/$d; PKGS+=("$(dirname $d)"); done
mapfile -t PKGS < <(printf '%s\n' "${PKGS[@]}" | sort -u)
rundemo(){ local rc=0; for p in "${PKGS[@]}"; do
   if ls $S/$p/*.py >/dev/null 2>&1 && ! ls $S/$p/*.go >/dev/null 2>&1; then for f in $S/$p/*demo*.py; do python3 $f >/tmp/mv/$ID.demo.log 2>&1 || rc=1; done
   elif ls $S/$p/*_test.go >/dev/null 2>&1; then (cd $S/$p && go test -vet=off -count=1 ${DEMO_RUN:+-run $DEMO_RUN} . >/tmp/mv/$ID.demo.log 2>&1) || rc=1; fi; done; return $rc; }
rundemo; R0=$?
echo "demo without patch: rc=$R0 (want 0)"
git -C $S apply --3way $AW/MUT/patch.diff 2>/tmp/mv/$ID.apply.log || git -C $S apply $AW/MUT/patch.diff || { echo "PATCH DOES NOT APPLY"; cat /tmp/mv/$ID.apply.log; exit 1; }
rundemo; R1=$?
echo "demo with patch: rc=$R1 (want !=0)"; tail -5 /tmp/mv/$ID.demo.log
for d in "${DEMOS[@]}"; do rm -f $S/$d; done
# pinned suite with the patch (only modules touched)
FAILS=0
for m in proxy/src/libs/shared-model proxy/src/libs/toolkit-core proxy/src/services/aggregation-output-plugin proxy/src/services/lunar-engine; do
  if git -C $S diff --name-only HEAD | grep -q "^$m/"; then
    (cd $S/$m && go test -json -vet=off -count=1 -timeout 25m ./... ) > /tmp/mv/$ID.suite.json 2>&1
    python3 - "$ID" <<'PY' || FAILS=1
import json,sys
res={}
for l in open('/tmp/mv/%s.suite.json'%sys.argv[1]):
    try: e=json.loads(l)
    except: continue
    if e.get('Test') and e.get('Action') in('pass','fail'): res[e['Package']+'::'+e['Test']]=e['Action']
b=json.load(open('/root/.vp/BASELINE.json')); sp=b['stable_pass']
if isinstance(sp,str): sp=eval(sp)
pk=set(k.split('::')[0] for k in res)
bad=[t for t in sp if t.split('::')[0] in pk and res.get(t)!='pass']
print('suite: %d results, baseline tests not passing: %d %s'%(len(res),len(bad),bad[:5]))
sys.exit(1 if bad else 0)
PY
  fi
done
if [ $R0 -eq 0 ] && [ $R1 -ne 0 ] && [ $FAILS -eq 0 ]; then
  D=/verif/seeded/$ID; mkdir -p $D/demo
  git -C $S checkout -- proxy/src/services/lunar-engine/streams/validation/policies.yaml 2>/dev/null; git -C $S diff HEAD > $D/patch.diff
  for d in "${DEMOS[@]}"; do mkdir -p $D/demo/$(dirname $d); cp $AW/$d $D/demo/$d; done
  cp $AW/MUT/README.md $D/README.agent.md 2>/dev/null
  echo "CONFIRMED $ID -> $D"
else
  echo "NOT CONFIRMED $ID (R0=$R0 R1=$R1 suite_fail=$FAILS)"; exit 1
fi
