#!/bin/bash
# usage: run_on_seeded.sh <seeded-id> <property> [extra simctl args]
# Applies /verif/seeded/<id>/patch.diff to a fresh scratch worktree of /repo HEAD and runs the
# property's check against that worktree (VERIF_REPO/VERIF_BINDIR development overrides); /repo itself
# is not touched, so several of these can run side by side. The worktree is removed afterwards.
ID=$1; P=$2; shift 2
W=/tmp/sw/$ID.$$
mkdir -p /tmp/sw; git -C /repo worktree add --detach $W HEAD >/dev/null 2>&1 || { echo "worktree failed"; exit 2; }
trap 'git -C /repo worktree remove --force $W >/dev/null 2>&1' EXIT
git -C $W apply --exclude='*policies.yaml' /verif/seeded/$ID/patch.diff || { echo "patch does not apply to HEAD"; exit 2; }
/verif/tools/run_on_wt.sh $W $P "$@"
