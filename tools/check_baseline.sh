#!/bin/bash
# Runs the pinned suite (guard off) on /repo's working tree and compares with /root/.vp/BASELINE.json stable_pass.
/verif/baseline_off.sh > /tmp/baseline_check.json 2>/dev/null
python3 - <<'PY'
import json
res={}
for l in open('/tmp/baseline_check.json'):
    try: e=json.loads(l)
    except: continue
    if e.get('Test') and e.get('Action') in('pass','fail'): res[e['Package']+'::'+e['Test']]=e['Action']
b=json.load(open('/root/.vp/BASELINE.json')); sp=b['stable_pass']
if isinstance(sp,str): sp=eval(sp)
bad=[t for t in sp if res.get(t)!='pass']
print('suite: %d results, baseline stable_pass %d, not passing now: %d %s'%(len(res),len(sp),len(bad),bad[:8]))
PY
rm -f /tmp/baseline_check.json
