#!/usr/bin/env python3
"""usage: new_wave.py <suffix> [ids...]  - creates /tmp/mut/<id><suffix> worktrees of /repo HEAD and prompt files.
Sub-agents get only the property text and their worktree (nothing from /verif)."""
import json,subprocess,sys,os,glob
suffix=sys.argv[1]; ids=sys.argv[2:]
props={json.loads(l)['id']:l.strip() for l in open('/verif/properties.jsonl')}
NA={'C07','C13','C14','C16'}
if not ids: ids=[i for i in sorted(props) if i not in NA]
tmpl=open('/verif/tools/mutant_prompt.tmpl').read()
os.makedirs('/tmp/mut',exist_ok=True)
subprocess.run(['git','-C','/repo','worktree','prune'])
for id in ids:
    wt='/tmp/mut/%s%s'%(id,suffix)
    subprocess.run(['git','-C','/repo','worktree','add','--detach',wt,'HEAD'],stdout=subprocess.DEVNULL,stderr=subprocess.DEVNULL,check=True)
    prev=[]
    for m in sorted(glob.glob('/verif/seeded/%s*/README.agent.md'%id)):
        prev.append(open(m).readline().strip().lstrip('# '))
    e=''
    if prev:
        e='Colleagues already produced these regressions: '+'; '.join(prev)+'. Yours MUST be different from all of them: a different mechanism / code location / triggering condition, ideally exercising another clause of the property. '
    e+='(The repository contains calls to lunar/toolkit-core/verifhook: without the build tag `verif` they are empty no-ops; ignore them and do not modify that package or rely on it. Files named verif_export.go are test scaffolding behind that tag; ignore them too.) '
    if id=='C19': e+='For this property the code is Python (interceptors/lunar-py-interceptor); requests/aiohttp/yarl are not installed, so your demonstration must be a stdlib-only Python script that stubs those modules via sys.modules before importing the interceptor sources.'
    open(wt+'.prompt.txt','w').write(tmpl.replace('__WT__',wt).replace('__PROP__',props[id]).replace('__EXTRA__',e))
    print(wt)
