#!/usr/bin/env python3
"""Reverts every "fix:" commit of /repo, one at a time, in a scratch worktree of HEAD and runs the quick check of the
property the fix belongs to (mapping from known-findings.json). Writes /verif/seeded/fix-reverts.json: the checks must
re-detect every repaired defect (a fixed entry suppresses nothing)."""
import json, subprocess, os, re, sys, shutil, tempfile
from concurrent.futures import ThreadPoolExecutor
import threading
kf = json.load(open('/verif/known-findings.json'))['findings']
prop_of = {}
for f in kf:
    if f.get('status') == 'fixed' and f.get('commit'):
        for c in f['commit'].split():
            prop_of.setdefault(c[:7], f['property'])
log = subprocess.check_output(['git', '-C', '/repo', 'log', '--format=%h %s', '--grep', '^fix:'], text=True).splitlines()
lock = threading.Lock()
# repairs whose reverts re-create something no listed property states
NOT_A_PROPERTY = {}
def one(line):
    h, subj = line.split(' ', 1)
    prop = prop_of.get(h[:7])
    res = {'commit': h, 'subject': subj, 'property': prop}
    if not prop:
        res['result'] = 'no property recorded in known-findings.json'
        return res
    if h[:7] in NOT_A_PROPERTY:
        res['result'] = NOT_A_PROPERTY[h[:7]]
        return res
    wt = '/tmp/sw/rev-%s' % h
    bindir = tempfile.mkdtemp(prefix='vbin.', dir='/tmp')
    with lock:
        subprocess.run(['git', '-C', '/repo', 'worktree', 'add', '--detach', wt, 'HEAD'], capture_output=True)
    try:
        r = subprocess.run(['git', '-C', wt, 'revert', '--no-commit', h], capture_output=True, text=True)
        if r.returncode != 0:
            res['result'] = 'revert conflicts with later commits'
            return res
        if os.path.exists('/verif/sim/bin/instrument'):
            shutil.copy('/verif/sim/bin/instrument', bindir)
        env = dict(os.environ, VERIF_REPO=wt, VERIF_BINDIR=bindir)
        p = subprocess.run(['/verif/simctl', 'check', prop, '--no-evidence'] + sys.argv[1:], capture_output=True, text=True, cwd='/verif', env=env)
        res['check_exit'] = p.returncode
        res['violations_reported'] = sorted(set('%s %s' % x for x in re.findall(r'rule=(\S+) sig=(.+?) seed=', p.stdout)))
        res['result'] = 'detected' if p.returncode == 1 else 'NOT detected (exit %d)' % p.returncode
        return res
    finally:
        with lock:
            subprocess.run(['git', '-C', '/repo', 'worktree', 'remove', '--force', wt], capture_output=True)
        shutil.rmtree(bindir, ignore_errors=True)
os.makedirs('/tmp/sw', exist_ok=True)
with ThreadPoolExecutor(5) as ex:
    out = list(ex.map(one, log))
head = subprocess.check_output(['git', '-C', '/repo', 'log', '-1', '--format=%h'], text=True).strip()
json.dump({'repo_head': head, 'tier_args': sys.argv[1:], 'reverts': out}, open('/verif/seeded/fix-reverts.json', 'w'), indent=1)
for r in out:
    print(r['commit'], r['property'], r['result'], (r.get('violations_reported') or [])[:2])
