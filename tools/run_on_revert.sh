#!/bin/bash
# usage: run_on_revert.sh <fix-commit> <property> [extra simctl args]
# Reverts one "fix:" commit in a scratch worktree of /repo HEAD and runs the property's check on it:
# the check must report the defect the commit repaired.
C=$1; P=$2; shift 2
W=/tmp/sw/rev-$C.$$
mkdir -p /tmp/sw; git -C /repo worktree add --detach $W HEAD >/dev/null 2>&1 || { echo "worktree failed"; exit 2; }
trap 'git -C /repo worktree remove --force $W >/dev/null 2>&1' EXIT
git -C $W revert --no-commit $C >/dev/null 2>&1 || { echo "revert of $C conflicts"; exit 2; }
/verif/tools/run_on_wt.sh $W $P "$@"
