#!/usr/bin/env python3
"""Regenerates sections 11-13 of DESIGN.md from known-findings.json, seeded/*/meta.json and the text below."""
import json, glob, os, re, subprocess
D='/verif/DESIGN.md'
s=open(D).read()
i=s.find('\n## 11. Record')
if i>=0: s=s[:i]
s=s.rstrip()+'\n'
kf=json.load(open('/verif/known-findings.json'))['findings']
log=subprocess.run(['git','-C','/repo','log','--reverse','--format=%h %s','--grep=^fix:'],capture_output=True,text=True).stdout.strip().splitlines()
out=[]
out.append('''
---------------------------------------------------------------------------------------

## 11. Record: defects found, fixes, known findings, false alarms corrected

### 11.1 Genuine defects, repaired in /repo (one unguarded `fix:` commit each)

Every one of these was first reported by a check on the then-unchanged tree, triaged against
the code with its minimised replay, repaired with the smallest patch a maintainer would take,
and the check was re-run: it passes on the repaired tree with no KNOWN-FINDING line and
reports the violation again if the repair is reverted (the `fixed` entries in
`known-findings.json` suppress nothing). The pinned 687-test suite passes unedited with all of
them (`./baseline_off.sh`).

| commit | property | what failed |
|---|---|---|''')
fixed=[f for f in kf if f['status']=='fixed']
bycommit={}
for f in fixed:
    for c in f['commit'].split():
        bycommit.setdefault(c,[]).append(f)
for l in log:
    c,subj=l.split(' ',1)
    props=sorted(set(f['property'] for f in bycommit.get(c,[])))
    out.append('| `%s` | %s | %s |'%(c,', '.join(props) or '-',subj[5:]))
out.append('''
### 11.2 Genuine defects recorded, not repaired (`known-findings.json`, status open)

The check prints `KNOWN-FINDING: property=<id> ...` for exactly the listed rule + signature
and exits 0; any other signature of the same property is a VIOLATION.
''')
for f in kf:
    if f['status']=='open':
        out.append('* **%s %s** `%s` - %s'%(f['property'],f['rule'],f['sig'],f['what']))
out.append('''
### 11.3 False alarms: the check was wrong, what was done

A violation on the unchanged tree was classified as a false alarm when the replay showed the
code doing something the property allows. In every case the machinery was corrected; none is
listed as a finding.

* **C10 R4 (order)** compared RFC3339Nano timestamps as strings (trailing zeros are trimmed,
  so `...02.5Z` sorted after `...02.500001Z`). The event now carries unix nanoseconds.
* **C06 R1 after an R4 violation**: the run stopped scheduling after the first violation and
  the final oracle then reported every still-waiting request as "no verdict". The scenario now
  returns at the first violation.
* **C06 R1 no-verdict after shutdown**: requests that arrived before the cancel but entered the
  queue only after the drain had run were flagged. The property covers the waiters at
  shutdown; requests entering the queue afterwards are outside it (stated as assumption).
* **C06 R4 after the drain**: the drain gave verdicts without a decision event, so the model
  still counted drained requests as waiting. A `queue.expired ... drain` event was added.
* **C06 R1 late verdict**: a request granted in time but parked by the simulator before it
  returned was measured at its return. Stall detection now marks every task that is parked
  while the clock advances, and the deadline is measured at the verdict event.
* **C06 R3 FIFO**: two requests pushed at the same fake instant have equal engine timestamps;
  either order is legal. Ranking uses the engine's push timestamp, ties are simultaneous.
* **C17 premature failure**: the rule "the first N in-condition responses of a call are
  retries" is stricter than "at most N retries". It fired on the unchanged tree because a
  stale cache sleeper of the previous state entry deletes the re-stored entry (the sequence
  fails early - fewer retries, which the statement allows). The rule was removed; what
  remains is the bound, failure after exhaustion, and that a call starting afresh gets its
  first retry.
* **C17 id reuse**: a response whose transaction id equals the sequence id always starts a new
  logical call; the model had continued the old call's count and reported a fifth retry.
* **C17/C12 expiry instant**: the cache sleeper deletes an entry at the expiry instant itself;
  the model now treats `now >= stored + ttl` as "may be gone".
* **C19 reference breaker**: predicting the breaker state from a mirrored counter flagged
  legal behaviour after a cool-down (the implementation keeps or clears its count depending on
  bypassed calls). The reference now judges transitions: opening is legal at the threshold or
  on the first failure after a cool-down, and mandatory at the threshold counted since the
  breaker last closed.
* **C19 shared plan in the stub transport**: nested calls overwrote the outcome planned for the
  in-flight call (harness bug); the transport now captures its own plan.
* **C08 change-flow+quota**: the generated payload put a second quota file on the same host,
  which the gateway rejects by design; the payload now uses another host.
* **C08 faults on the restore path**: a fault injected into the gateway's own `Restore` after a
  rejection is a second failure; disk/behaviour equality is not demanded there (section 4,
  C08 as built).
* **C11 overlapping revert**: a revert overlapping an apply may read the loaded-policies file
  before or after the apply persisted it; both markers are accepted.
* **C04 / C03 bodies**: `MockProcessor` registers conditions `output_1/output_2` but emits the
  empty condition, so flows using it are rejected or never advance; the inert body is a Filter
  routing both outcomes to the stream end.
* **Harness crash `concurrent map writes`** (rare, any scenario): kernel maps were written by
  several goroutines; with GOMAXPROCS=1 a goroutine can still be descheduled inside a map
  write. All harness state is now behind one mutex.
* **Race reports on `verifhook.ReleaseFn`**: race-mode hooks were installed after the engine had
  started goroutines; they are installed first now.
''')
out.append('''---------------------------------------------------------------------------------------

## 12. Seeded changes: which check catches which

Fresh sub-agents were given only the text of one property and a scratch worktree of /repo
(nothing from /verif) and asked for a change that breaks the property, still compiles and
passes the existing tests, and needs something specific to manifest; each comes with a
demonstration. A change is kept under `/verif/seeded/<id>/` (patch.diff, demo/, meta.json,
the agent's README) only after `tools/verify_mutant.sh` confirmed in a fresh worktree of the
current /repo HEAD that the patch applies and builds, the pinned suite of the touched module
still passes, the demo passes without and fails with the patch. `tools/record_mutant.py`
applies the patch to /repo, runs the property's quick check, reverts, and writes meta.json.
Changes whose patch no longer applied after a repair in /repo were ported by hand
(`patch.orig.diff` is the agent's original).

| id | property | needs to manifest | quick check | rules that fired |
|---|---|---|---|---|''')
for d in sorted(glob.glob('/verif/seeded/*')):
    mp=d+'/meta.json'
    if not os.path.exists(mp): continue
    m=json.load(open(mp))
    out.append('| %s | %s | %s | %s | %s |'%(m.get('id',os.path.basename(d)),m.get('breaks_property','?'),m.get('needs_to_manifest',''),
        'caught' if m.get('detected') else 'MISSED (exit %s)'%m.get('check_exit'), '; '.join(m.get('violations_reported',[]))[:160]))
out.append('''
Misses on first contact and what was changed (all are caught now):
C08a (no payload re-sent an existing file with *shorter* content: class `shrink-flow` added),
C09b (window sizes all divided the zero-time/epoch offset: 7, 13, 1000 s added),
C11b (configuration changes were serialised by assumption: two may overlap now, quick tier 6000 runs),
C17b (never more than three live sequences: store pressure added),
C01b (the clock was frozen inside a burst: clock may cross a window end between increment and verdict, judged on `fw.inc` events),
C12b (equal body sizes, no concurrent stores for one key: sizes 50/300/600 kB and same-key stores added),
C18b (no enclosing wildcard flows in the C18 configuration: three added),
C03b (a header key was never listed twice: alternatives added).
C06b (TTL elapsing inside one quota check of the processing loop) was not confirmed - its
demonstration fails on the unchanged tree as well - and is not kept; it needs the engine's
background goroutines to be schedulable at lock sites (section 13).
''')
out.append(open('/verif/tools/design_status.md').read() if os.path.exists('/verif/tools/design_status.md') else '')
open(D,'w').write(s+'\n'.join(out)+'\n')
print('written')
