#!/usr/bin/env python3
"""Regenerates sections 11-13 of DESIGN.md from known-findings.json, seeded/*/meta.json and the text below."""
import json, glob, os, re, subprocess
D='/verif/DESIGN.md'
s=open(D).read()
i=s.find('\n## 11. Record')
if i>=0: s=s[:i]
s=s.rstrip()+'\n'
kf=json.load(open('/verif/known-findings.json'))['findings']
log=subprocess.run(['git','-C','/repo','log','--reverse','--format=%h %s','--grep=^fix:'],capture_output=True,text=True).stdout.strip().splitlines()
out=[]
out.append('''
---------------------------------------------------------------------------------------

## 11. Record: defects found, fixes, known findings, false alarms corrected

### 11.1 Genuine defects, repaired in /repo (one unguarded `fix:` commit each)

Every one of these was first reported by a check on the then-unchanged tree, triaged against
the code with its minimised replay, repaired with the smallest patch a maintainer would take,
and the check was re-run: it passes on the repaired tree with no KNOWN-FINDING line and
reports the violation again if the repair is reverted (the `fixed` entries in
`known-findings.json` suppress nothing). The pinned 687-test suite passes unedited with all of
them (`./baseline_off.sh`).

| commit | property | what failed |
|---|---|---|''')
fixed=[f for f in kf if f['status']=='fixed']
bycommit={}
for f in fixed:
    for c in f['commit'].split():
        bycommit.setdefault(c,[]).append(f)
for l in log:
    c,subj=l.split(' ',1)
    props=sorted(set(f['property'] for f in bycommit.get(c,[])))
    out.append('| `%s` | %s | %s |'%(c,', '.join(props) or '-',subj[5:]))
out.append('''
### 11.2 Genuine defects recorded, not repaired (`known-findings.json`, status open)

The check prints `KNOWN-FINDING: property=<id> ...` for exactly the listed rule + signature
and exits 0; any other signature of the same property is a VIOLATION.
''')
for f in kf:
    if f['status']=='open':
        out.append('* **%s %s** `%s` - %s'%(f['property'],f['rule'],f['sig'],f['what']))
out.append('''
### 11.3 False alarms: the check was wrong, what was done

A violation on the unchanged tree was classified as a false alarm when the replay showed the
code doing something the property allows. In every case the machinery was corrected; none is
listed as a finding.

* **C10 R4 (order)** compared RFC3339Nano timestamps as strings (trailing zeros are trimmed,
  so `...02.5Z` sorted after `...02.500001Z`). The event now carries unix nanoseconds.
* **C06 R1 after an R4 violation**: the run stopped scheduling after the first violation and
  the final oracle then reported every still-waiting request as "no verdict". The scenario now
  returns at the first violation.
* **C06 R1 no-verdict after shutdown**: requests that arrived before the cancel but entered the
  queue only after the drain had run were flagged. The property covers the waiters at
  shutdown; requests entering the queue afterwards are outside it (stated as assumption).
* **C06 R4 after the drain**: the drain gave verdicts without a decision event, so the model
  still counted drained requests as waiting. A `queue.expired ... drain` event was added.
* **C06 R1 late verdict**: a request granted in time but parked by the simulator before it
  returned was measured at its return. Stall detection now marks every task that is parked
  while the clock advances, and the deadline is measured at the verdict event.
* **C06 R3 FIFO**: two requests pushed at the same fake instant have equal engine timestamps;
  either order is legal. Ranking uses the engine's push timestamp, ties are simultaneous.
* **C17 premature failure**: the rule "the first N in-condition responses of a call are
  retries" is stricter than "at most N retries". It fired on the unchanged tree because a
  stale cache sleeper of the previous state entry deletes the re-stored entry (the sequence
  fails early - fewer retries, which the statement allows). The rule was removed; what
  remains is the bound, failure after exhaustion, and that a call starting afresh gets its
  first retry.
* **C17 id reuse**: a response whose transaction id equals the sequence id always starts a new
  logical call; the model had continued the old call's count and reported a fifth retry.
* **C17/C12 expiry instant**: the cache sleeper deletes an entry at the expiry instant itself;
  the model now treats `now >= stored + ttl` as "may be gone".
* **C19 reference breaker**: predicting the breaker state from a mirrored counter flagged
  legal behaviour after a cool-down (the implementation keeps or clears its count depending on
  bypassed calls). The reference now judges transitions: opening is legal at the threshold or
  on the first failure after a cool-down, and mandatory at the threshold counted since the
  breaker last closed.
* **C19 shared plan in the stub transport**: nested calls overwrote the outcome planned for the
  in-flight call (harness bug); the transport now captures its own plan.
* **C08 change-flow+quota**: the generated payload put a second quota file on the same host,
  which the gateway rejects by design; the payload now uses another host.
* **C08 faults on the restore path**: a fault injected into the gateway's own `Restore` after a
  rejection is a second failure; disk/behaviour equality is not demanded there (section 4,
  C08 as built).
* **C11 overlapping revert**: a revert overlapping an apply may read the loaded-policies file
  before or after the apply persisted it; both markers are accepted.
* **C04 / C03 bodies**: `MockProcessor` registers conditions `output_1/output_2` but emits the
  empty condition, so flows using it are rejected or never advance; the inert body is a Filter
  routing both outcomes to the stream end.
* **Harness crash `concurrent map writes`** (rare, any scenario): kernel maps were written by
  several goroutines; with GOMAXPROCS=1 a goroutine can still be descheduled inside a map
  write. All harness state is now behind one mutex.
* **Race reports on `verifhook.ReleaseFn`**: race-mode hooks were installed after the engine had
  started goroutines; they are installed first now.
* **C08 R4 after a failed recovery** (thorough tier, seed 2017418, on the unchanged tree): a
  payload with a bad quota was rejected and the fault hit the gateway's own restore
  (`fs.create quotas/q.yaml`, second occurrence); the directory then held the new flow without
  the quota file and the roll-back reload loaded that mix, so a probe saw "421". Two
  failures in one update are outside the fault model (R1/R2 were already exempt); R4 now also
  skips probes that finish after the second failure.
* **C06 with engine goroutines scheduled** (during development of that mode, never committed
  as failing): (1) `queue.dequeued` was emitted after the queue lock was released, so a push
  could be logged between the pop and its event (order alarm) - the event moved under the lock
  (`mq.pop`); (2) a goroutine parked at a lock site while the clock moves is a stall: deadlines
  now wait out (chained) stall intervals of the loop and the watcher instead of being waived;
  (3) stalls that begin inside a jump, or inside the 1 microsecond between arrivals, were not
  recorded - multi-tick jumps now let the engine goroutines run freely until the last tick.
* **C10 with the roll-over goroutine scheduled**: the microsecond between two arrivals could
  cross a window end with the roll-over goroutine parked at its lock site, i.e. stalled for
  999 ns, and R1 (slots handed out *at* the roll-over instant) fired on the unchanged tree;
  the goroutine now runs freely whenever the clock moves.
* **C11H retry cool-down as version indicator** (first version of the scenario, never
  committed as failing): the x-lunar-retry-after value of a retried attempt comes from the
  sequence's stored retry state, not from the policy version of the attempt; the scenario now
  reads one bit (retry remedy enabled or not) instead.
* **C08 second update vs. first update's rules**: a second update that legitimately started
  after the first had released the handler changed disk and behaviour, and R1/R2/R3 of the
  first update fired; an accepted second update is now excluded from those comparisons and
  judged by R5 alone.
* **C08 R5 on a second update that was itself hit by several faults** (thorough sweep with
  VERIF_SEED=8, seed 8001141, on the unchanged tree): the faults armed for a run are keyed by
  operation and occurrence, not by update, so a second update that the handler accepted for
  processing met an injected HAProxy failure and then a read failure inside its own roll-back;
  it was answered 422 and left its file behind. Two failures in one update are outside the
  fault model for the first update (R1/R2) and are now outside it for the second one as well.
* **C08 R4 on a probe that met the second update** (thorough sweep with VERIF_SEED=9, seed
  9011075, on the unchanged tree): a /p5 transaction during the first update was answered by
  the flow of the second, accepted update ("415") and counted as "neither old nor new" for the
  first one. The second update is judged on its own (R5); its answer on /p5 is no longer held
  against the first.
* **C08 R5 on a second update that came first** (a 30 000-run check of C08 against seeded
  change C08n, seed 1014957, reproduced on the unchanged tree): since the instrumenter turns
  non-waiting lock attempts into fault points (wave i), the first update can be parked in front
  of the handler's guard; a second update started there ran to completion first (200), then the
  first one took the guard and, being an /apply_flows, replaced the flows directory - the
  second update's file was gone and R5 ("answered 200, so it has to be in force") fired. One
  after the other is a legal order; the second update is no longer started while the first
  still stands in front of the guard.
* **C02 fixed-window child outside its parent's filter** (wave g, never committed as
  failing): with a fixed-window internal limit on `a.com/c` below a concurrency quota on
  `a.com/p` the parent's slot was not given back on the response, only at expiry: a
  fixed-window quota's system flow has no release step, the release on the response path is
  done by the parent's own system flow, which runs for every transaction its filter covers.
  An internal limit refines its parent (it inherits what its filter leaves out), so the
  scenario now gives the parent `a.com/*`; the drop path (`fixedWindow.Dec` forwards to the
  parent) is what the seeded change C02g breaks and is judged as before.
* **C03 query requirement without a value**: the first version of the reference demanded that
  any value satisfies a key-only requirement; the engine requires the empty value (its
  "value not specified" branch is dead code, `GetParamValue` never returns nil). The property
  does not fix this, so a non-empty value against a key-only requirement is not judged.
''')
out.append('''---------------------------------------------------------------------------------------

## 12. Seeded changes: which check catches which

Fresh sub-agents were given only the text of one property and a scratch worktree of /repo
(nothing from /verif) and asked for a change that breaks the property, still compiles and
passes the existing tests, and needs something specific to manifest; each comes with a
demonstration. A change is kept under `/verif/seeded/<id>/` (patch.diff, demo/, meta.json,
the agent's README) only after `tools/verify_mutant.sh` confirmed in a fresh worktree of the
current /repo HEAD that the patch applies and builds, the pinned suite of the touched module
still passes, the demo passes without and fails with the patch. `tools/record_mutant.py`
applies the patch to a fresh scratch worktree of /repo HEAD, runs the property's quick check
against it (development overrides `VERIF_REPO`/`VERIF_BINDIR`, never set by a registered
command; equivalent to `git -C /repo apply` + check + `git -C /repo checkout -- .`, which
`tools/run_on_mutant.sh` still does, but several can run side by side), and writes meta.json.
Changes whose patch no longer applied after a repair in /repo were ported by hand
(`patch.orig.diff` is the agent's original).

| id | property | needs to manifest | quick check | rules that fired |
|---|---|---|---|---|''')
for d in sorted(glob.glob('/verif/seeded/*')):
    mp=d+'/meta.json'
    if not os.path.exists(mp): continue
    m=json.load(open(mp))
    verdict='caught' if m.get('detected') else 'MISSED (exit %s)'%m.get('check_exit')
    if m.get('applies_to_head') is False: verdict='superseded (see note)'
    if m.get('confirmed') is False: verdict='not a regression on HEAD (see note)'
    if m.get('undecided'): verdict='not decided by the property (see note)'
    if m.get('detected') and m.get('detected_by') and m.get('detected_by')!=m.get('breaks_property'): verdict='caught by the %s check'%m['detected_by']
    out.append('| %s | %s | %s | %s | %s |'%(m.get('id',os.path.basename(d)),m.get('breaks_property','?'),m.get('needs_to_manifest',''),
        verdict, '; '.join(m.get('violations_reported',[]))[:160]))
notes=[]
for d in sorted(glob.glob('/verif/seeded/*')):
    mp=d+'/meta.json'
    if os.path.exists(mp):
        m=json.load(open(mp))
        if m.get('note'): notes.append('* %s: %s'%(m['id'],m['note']))
if notes: out.append('\nNotes:\n'+'\n'.join(notes))
out.append('''
Misses on first contact and what was changed (all are caught now):
C08a (no payload re-sent an existing file with *shorter* content: class `shrink-flow` added),
C09b (window sizes all divided the zero-time/epoch offset: 7, 13, 1000 s added),
C11b (configuration changes were serialised by assumption: two may overlap now, quick tier 6000 runs),
C17b (never more than three live sequences: store pressure added),
C01b (the clock was frozen inside a burst: clock may cross a window end between increment and verdict, judged on `fw.inc` events),
C12b (equal body sizes, no concurrent stores for one key: sizes 50/300/600 kB and same-key stores added),
C18b (no enclosing wildcard flows in the C18 configuration: three added),
C03b (a header key was never listed twice: alternatives added).
C06b (TTL elapsing inside one quota check of the processing loop) was not confirmed - its
demonstration fails on the unchanged tree as well - and is not kept.

Third wave (suffix c), 16 changes: 6 were caught as delivered (C01c, C04c, C11c, C15c, C17c,
C19c), 10 were missed at first. What was changed:
C09c (group names never differed by case only, and the unit-test hasher MD5 was used: case
variants and the production identity obfuscator added),
C12c (one selected path parameter: two-parameter keys with separator characters and one-sided
absence added),
C10c (the roll-over goroutine always won the mutex at a window end: it is schedulable now and
arrivals are placed ahead of it),
C06c and C18c (a TTL could not elapse while the processing loop held the request: the
engine's own goroutines are scheduled at lock sites in a third of the C06 runs, the loop is
driven until it holds a waiting request and the clock moved to that request's expiry; order
and quota admission are judged at decision-point events, deadlines wait out stall intervals),
C03c (no query requirement without a value, no empty query values: added),
C20c (the predicate script always began healthy: a quarter begin unhealthy),
C08c (a transaction during a *failed* update was allowed to see the new configuration: R4 now
demands the old one),
C05c (quota files had no hierarchy of internal limits: shuffled hierarchies added),
C02c (no second quota on the URL of the concurrency quota: added - and the mirrored order the
sub-agent mentioned turned out to be a genuine defect of the unchanged tree, fix `3c5df4b`).

Fourth wave (suffix d), 16 changes: 7 were caught as delivered (C01d, C03d, C06d, C10d, C11d,
C15d, C19d), 7 were missed at first, 2 turned out to build on clauses in which the unchanged
tree was already wrong (C09d: window size change, repaired by `ce2ecba` while the sub-agent
was still working; C08d was caught, then made harmless by `3b692aa`). What was changed:
C20d (the scripted predicate returned instantly, so checks sat exactly on the interval grid:
the predicate now takes time),
C05d (request and response directions never shared a processor key: response loops over
request keys added),
C08d/C08 (no payload failed at the *last* reload step: payload classes with a metrics entry
added - which exposed two genuine defects, `6fb0bf2` and `3b692aa`; a yield point right after
the publication of the new engine, probes reserved for that window),
C17d (the clock only advanced by the cool-downs: slow upstream and a short retry request
timeout added),
C04d (one quota at most: two nested concurrency quotas and rules on the order of system and
user flows, request vs. response),
C12d (readers were never held across an expiry: in all-reader groups the clock may pass an
expiry while they are parked; staleness is judged at the start of the request),
C02d (the same transaction was never ended twice *concurrently*: overlapping response and
proxy error added),
C18d (no scheduling point inside a processor's Execute: the instrumenter now puts one in
front of every statement of the Execute methods under streams/processors, used by C18S in half
of its runs together with probe traffic that differs in the filter outcome).

Fifth wave (suffix e), 16 changes: 10 were caught as delivered (C01e, C03e, C04e, C06e, C09e,
C10e, C11e, C15e, C19e, C20e), C18e by the C06 check, 5 were missed at first. What was changed:
C12e (the Retry-After header always had the configured letter case: other cases added),
C08e (the gateway always had files before the update: fresh-gateway payload classes added),
C02e (the expiry-GC goroutine always ran between the harness's steps: it is a schedulable
task at its tick instants now, operations interleave with a GC pass),
C05e (request URLs were always parseable and at most one flow looked at the query string:
malformed URLs, flow-level filters on both flows, a wildcard flow URL added),
C17e (policy mode was driven at the RetryPlugin only: scenario C17D drives the real
dispatcher with an early-answering remedy and re-sends a call while a retry is asked for).
While seeding C05e the sub-agent noted two places where the unchanged tree already broke C05;
both were reproduced by the C05 check after flow references and flow-level filters were added
to its generator, and repaired (`83a1f6d` self-referencing flow: stack overflow in the loader;
`3d2c6f6` status-code filter + early response: nil dereference).

Sixth wave (suffix f), 16 changes: 7 were caught as delivered (C01f, C02f, C04f, C06f, C15f,
C19f, C20f), C18f by the C11 check, 8 were missed at first. What was changed:
C03f (literal segments never differed by letter case: "X" next to "x"),
C12f (no two URLs differing by letter case only),
C10f (quick tier too thin for "a waiter expires while others stay queued": crowded profile,
half-second arrival spacing, 4000 quick runs),
C11f and C05f (the harness entered below the SPOE entry points, so the argument decoding and
the handler were never run: `routing.VerifProcessRequest/Response` now expose
`processRequest`/`processResponse`; scenario C11H drives policy mode through them with SPOE
messages and retried attempts across reloads; C05 decodes header blocks with the gateway's
own parser, one in six malformed, and loads a DataSanitation flow),
C17f (one flow only: a second, enclosing flow with processors of the same names),
C08f (one update at a time: a second update is sent while the first is being handled, rule
R5),
C09f (no request was ever held between its clock read and the counter's lock while the clock
moved: bursts may now be held across a window end; passes under way at that instant may be
attributed to either window).
While extending C05 for C05f the check found one more genuine defect of the unchanged tree
(`8147793`: DataSanitation and TransformAPICall dereferenced the nil parsed URL of a request
whose URL does not parse).

Seventh wave (suffix g), 16 changes: 7 were caught as delivered (C01g, C04g, C05g, C10g,
C11g, C17g, C20g), 9 were missed at first. What was changed:
C09g (allowances of at most 5 with a handful of percentages: a quarter of the runs now draw
allowances up to 150 with any whole percentage and fill a share to the brim - which found
the same kind of defect in the unchanged tree, 100 at 28 % let 29 pass, fix `7070e5d`; the
sub-agent's change multiplies by 0.01 instead of dividing by 100 and is harmless after the
repair),
C03g (the host of a transaction was always one of the configured hosts: hosts now gain or
lose a label at either end - which found that `a.com/*` was applied to `a.com.x`, fix
`ef3d592`; the sub-agent's change, ported over the repair, does the same for `{param}`),
C12g (`retry_after_type` was always given: one throttling run in five leaves it out; whether
the engine then stores is its choice, a replay must carry a reduced value),
C19g (gateway failures were raised as exactly the registered exception class: subclasses
`SSLError`, `ConnectTimeout` as in requests),
C06g (a shutdown never met a request the TTL watcher had claimed and not yet released: a
third of the runs with schedulable engine goroutines place the shutdown there - the clock
goes to the earliest expiry, the watcher is driven lock site by lock site until it has made
its claim, then the context is cancelled and the loop driven into its drain),
C15g (the state file could always be written: a third of the deliveries have one or two
flushes fail - the path is a directory for the time of the flush; a failed flush may lose
its own batch and nothing else, so the result must equal the single-batch result of the
records without some subset of the failed batches),
C02g (internal limits below a concurrency quota were concurrency quotas themselves: a
fixed-window child in half of the parent runs),
C08g (one judged update per gateway: in a quarter of the sampled runs an accepted
/apply_flows that removes a flow file comes first),
C18g (transactions entered below the SPOE message handler: C18S and C18R send half of
their runs through `routing.Handler`, one call per frame; the race detector reports the shared
variable, C18S the swapped verdicts).

Eighth wave (suffix h), 16 changes: 7 were caught as delivered (C06h, C08h, C09h, C10h,
C17h, C18h, C20h), 8 were missed at first, 1 is not decided by the property. What was changed:
C19h (the scripted resolver only ever failed with "name not found": `herror`, a resolver
timeout and "too many open files" added),
C05h (Filter processors only had a header parameter: URL patterns that are no regular
expressions, endpoint, method, body and status-range values the loader does not look into),
C15h (durations were at least 1 ms: a third of the records of half of the runs take 0 ms),
C01h (requests carried the grouping header or nothing: unrelated headers added, among them
one whose name is the engine's word for "no group", `default`),
C12h (one size limit per run: in half of the size runs the limit changes between stores;
an entry that was stored must have fitted, together with the entries of other keys alive
then, into the limit in force at its store),
C02h (every transaction had an id of its own: ids come from the client, a third of the runs
give the id of a transaction that is over - ended, or abandoned and collected - to a new one),
C04h (flow references were not generated by C04 at all: a quarter of the runs now load a flow
whose request path begins at the end of another flow and whose response path hands over to
it, judged against the composite graph; in a third of those the end of the referenced flow
is referred to twice and both continuations must run),
C11h (a lock attempt that does not wait never met a held lock, because the simulator never
parks a task that holds one: the instrumenter turns `TryLock`/`TryRLock` into a fault point
and C11/C11H let a third of such attempts fail, as under contention by a pinning transaction,
a reload or a vacuum pass; the unchanged accessor has no such attempt, the handler's own
`TryLock` is left alone in C08).
C03h makes `host/a/*` apply to the bare stem `host/a`. The property does not say whether a
trailing wildcard takes the empty suffix, and the engine's two tree walks disagree on it
(`Lookup`, used for policies and quotas, accepts the stem; `Traversal`, used for flows, accepts
it only below the host): the C03 reference leaves both outcomes open, so this change is
recorded as not decided rather than as caught or missed.
While reading for C18h the sub-agent noticed that an earlier repair of this effort
(`5a7a63d`) had introduced a lock-order inversion between `MapVacuum.vacuum` and
`concurrency.Limiter.TryTakeSlot`; corrected by `219b1de` (section 11.1).

Ninth wave (suffix i), 16 changes: 4 were caught as delivered (C02i, C11i, C15i, C19i),
12 were missed at first. What was changed:
C09i (only the window size ever changed between requests: allowance and percentage changes
that keep the window size; bound against the largest share met in the window),
C10i (no rule said when a request may be made to wait: R5 now demands that every slot of its
window had been handed out before the decision),
C20i (the scripted predicate always answered within a third of an interval: one evaluation
per run may hang for 2, 5 or 30 intervals; an evaluation is an observation once it answered),
C01i (no percentage-allocated internal limits, no sibling limits: both added),
C05i (processor parameters were scalars: list and map values with elements of mixed kinds),
C12i (absolute Retry-After instants were always in the future: instants already over added),
C03i (one spelling per URL pattern: trailing slashes),
C08i (configuration files of a few hundred bytes: one of 1.3 MB),
C17i (multiplier at least 1 and at least a millisecond between responses: zero multiplier,
responses at once),
C04i (processors were only referred to by the flow that defines them: `f1.g1` used by f0),
C18i (a lost update on the vacuum's entry list, invisible to the race detector: scenario C18V
holds the vacuum goroutine inside a pass while a key is registered and checks that every
registered key leaves the map),
C06i (a read lock taken twice by the processing loop, deadlocking with a writer in between:
needed tasks parked inside critical sections and blocking on locks - the simulated blocking
described in section 0 was built for it; scenario C06L reports the deadlock with the tasks
and lock sites involved, and scenario C18L, built on the same kernel feature, re-detects the
lock-order inversion that `219b1de` had corrected).

Tenth wave (suffix j), 16 changes: 5 were caught as delivered (C02j, C10j, C11j, C12j,
C18j), C03j by the C18 check (a pooled result object handed back while its transaction still
uses it: races and a non-serialisable outcome), 10 were missed at first. What was changed:
C19j (the reference allowed the breaker to re-open on the first failure after a cool-down
because the count that opened it may still stand - also when a call that had been sent
through the gateway before it opened succeeded in the meantime: that success clears the
count, the leniency is now cancelled by it),
C05j (quota filters had no expressions, internal limits no filter blocks of their own: added),
C06j (a same-priority arrival between the loop taking the only waiting request off the
queue and putting it back: profile 6 opens every run with exactly that, scripted),
C09j (the quota gauge was never read: metrics reads between requests, an observation must
change nothing),
C15j (the harness process ran in UTC: half of the runs set another time zone),
C20j (the stable period was measured from the start of the first check that saw the new
state, the earliest instant it could count as observed; it is measured from the instant that
check answered now - a state is observed once the evaluation has answered),
C01j (only plain fixed-window quotas: custom-counter quotas whose requests carry their own
cost, some costing more than the whole maximum; the reference was taught that such a request
is refused without opening a window, which is what the unchanged engine does),
C08j (every file had content: an empty configuration file),
C04j (system flows of quotas were judged on their order only: their processors run once per
transaction side),
C17j (every attempt had a transaction id of its own: a quarter of the flows-mode runs pin
the id, every attempt carries the sequence's id).

Eleventh wave (suffix k), 16 changes: 5 were caught as delivered (C01k, C04k, C09k, C19k,
C20k), 11 were missed at first. What was changed:
C18k (a response-side lock released too early: the C02 and C18S concurrent groups now run
under simulated blocking with overlapping responses of several transactions and one late
arrival; both report it),
C05k (processor lists never had null or empty entries: two textual mutations add them),
C11k (transaction ids were short and distinct in their first characters: long ids with a
common prefix),
C17k (a sequence id was always non-empty: the empty id is one of the ids now),
C03k (every path segment was one `url.Parse` accepts: `50%` and `%zz` segments; the wider
generator alarmed on the unchanged tree - query parameters of such a URL were lost, a genuine
defect, fix `2a196b5`),
C06k (priority groups were numbered from 1: a third of the prioritised runs number them
from 0),
C08k (configuration files sat in one directory: a file in a nested directory),
C15k (no endpoint was declared known in advance: some are),
C10k (a writer waiting between two read locks of the policy-mode queue: scenario C10L runs
the strategy-based queue under simulated blocking and reports the deadlock),
C12k (a store into a key whose expired entry's sleeper goroutine is still held: the sleeper
can be held across the store now, its late refund must not touch the new entry),
C02k (a response processor that fails, followed by the proxy reporting the same transaction
as failed: needed an injected processor failure - hook `54b1a26`, fault `proc.execute` - and
a flow with a response-side processor).
In the re-record after this wave two older changes had dropped out of reach of the quick
tier because the generators' choice sequences had shifted (C02e, C06d: both had been caught
by one run in two thousand). Both states are placed on purpose now: C02 ends half of the
runs with a schedulable GC by one last request that meets a GC pass over the emptied set and
is abandoned; C06 profile 7 opens with the head of the queue timing out less than one tick
before the window opens while two more requests wait behind it.

Twelfth wave (suffix l), 16 changes: 11 were caught as delivered (C01l, C02l, C04l, C06l,
C08l, C09l, C10l, C11l, C12l, C18l, C20l), 5 were missed at first. What was changed:
C03l (no transaction URL had an empty path segment: one in eight has a doubled slash now, an
empty segment is a segment; a path parameter against an empty segment is left undecided),
C05l (quota files were wrong in their structure only, never in a field: the strategy of a
quota or of its internal limit is missing, empty, or has an unknown unit, a negative maximum,
a zero interval or a word where a number belongs),
C15l (the plugin reports failed transactions to the engine's admin endpoint before it
aggregates a batch; the harness ran without `ENGINE_ADMIN_PORT`, so that code never ran: the
child process has it set now and the process's default HTTP transport is a stub that is
reachable, unreachable, unreachable every other time, or answers 500 - no socket is opened),
C17l (sequence ids were short: a quarter of the C17F runs use ids that agree in their first
48 characters),
C19l (a call in flight through the gateway never outlasted the cool-down, and it never ended
in a gateway failure: both happen now; the reference had also let the count start again after
a cool-down, requiring the breaker to re-open only after a full threshold of new failures -
the statement clears the count on a successful call through the gateway and on nothing else,
so a gateway failure that finds the count at the threshold leaves the breaker open whenever it
is recorded; the unchanged interceptor does that, 100 000 runs without a report).

Thirteenth wave (suffix m), 16 changes: 9 were caught as delivered (C02m, C05m, C06m, C08m,
C09m, C10m, C15m, C17m, C18m), C03m by the C18 check (a filter-tree node's flow slice handed
out without a copy: overlapping transactions overwrite each other's selection), 6 were missed
at first. What was changed:
C01m (every request had an id of its own: a quarter of the runs re-send the id of an earlier,
completed request now and then - every transaction counts, whatever it calls itself),
C04m (the flow that uses another flow's processor as `f1.g1` never had a `g1` of its own: in
half of those runs it declares one, configured differently, and connects nothing to it),
C11m (a transaction id was never seen again after its response: in a third of the C11H runs an
answered transaction may come back under its id - the request of its next attempt, then that
attempt's response; the version of its first request stands),
C19m (only the requests hook was built on the fail-safe: the package builds one hook per
installed client library on the one shared fail-safe, each registering its own connection
errors; aiohttp and tornado are stubbed far enough for their hooks to be constructed, in the
package's order, in three quarters of the runs),
C20m (the reactions took no time: in a quarter of the runs the unhealthy reaction takes up to
more than a cool-down; the cool-down follows the reaction, it is measured from its return),
C12m (a replayed response never reached the response side of its remedy, as it does through
the dispatcher: half of the runs feed every replay back. That alarmed on the unchanged tree -
a genuine defect, the replay of an entry that expired between the lookup and the
store-if-absent was stored again for a full time-to-live; fix `3bc4b0c`. With the fix C12m,
a boundary mismatch between `Has` and `Get` that only mattered through that feedback, is
harmless).
The sub-agent of C18m noted a second defect of the unchanged tree in its report: the quota
gauge of the strategy-based throttling remedy panics (integer divide by zero) when it is read
between the publication of a never-seen pair's state and that pair's first increment. The
new scenario C18Q reproduces it (seed 1000061); fix `afac3f1`.

Fourteenth wave (suffix n), 16 changes: 5 were caught as delivered (C03n, C04n, C06n, C19n,
C20n); three generators had been widened while the sub-agents were still at work and caught
their change at the first try (C09n: shares above 100 %; C15n: status codes that have no
registered name; C12n: a header a later remedy adds to the response after it was stored must
not come back in a replay); 8 were missed at first, all are caught now. What was changed:
C01n (group values differed in more than their case: `A` is a group beside `a` now),
C02n (a request-side processor of a user flow fails after the quota admitted the transaction
- the gateway is fail-open, the call goes to the provider and keeps its slot: the `proc.execute`
fault on the request side, and the extra flow sits on the quota's own URL in half of the runs
so that it runs after the admission),
C10n (the roll-over goroutine was never late: a fault holds it back for 100-700 ms after its
timer fired at a window boundary; the roll-over of that instant is not judged, the following
ones are - the queue has to be back on the grid),
C11n (a response exactly at the end of the retention period was not judged: the last instant
of the period is within it, and the clock stops there; 88 000 runs of the unchanged tree
without a report),
C18n (a write lock kept on an error branch that only overlapping writers reach - no race, the
next operation waits for ever: the kernel counts the instrumented locks a task still holds
when its function returns (`Sim.LeakedLocks`), C12 reports it after every step; caught by the
C12 check),
C08n (the engine that a reload replaced is emptied while a transaction that had fetched it
still runs: the C18 check reports the race in its quick tier, the C08 check the transaction
that was handled by neither configuration in 30 000 runs (seed 1011355), not in its quick
tier. That long run also produced a false alarm of C08 R5, corrected, section 11.3),
C17n (the flow context created lazily, unsynchronised, by its first users: needed a flow with
a Retry processor under the race detector - C18R loads one and sends it 503 responses; caught
by the C18 check),
C05n (the cycle check of the validator no longer follows connections that cross into another
flow: the references the generator made pointed at a second flow on the same URL, which the
builder refuses for other reasons before the cycle check is reached; one run in eight now
loads a pair of flows of the shape of the shipped samples - a flow on the tested URL that
hands its request over to a shared flow on another URL, whose end leads back - which goes
round in a circle and has to be refused, and an acyclic variant that chains the flows the
ordinary way; the dry run builds the flows in either order).

Fifteenth wave (suffix o), 16 changes: 7 were caught as delivered (C01o, C05o, C06o, C09o,
C10o, C19o, C20o), C18o by the C06 check (a request published in the queue before it is
registered with the watcher: a waiter nobody serves), two more by generators widened while the
sub-agents were at work (C12o: what a response remedy adds to one replay is not part of the
next one; C15o: `get` beside `GET` - another spelling of a method is another endpoint); 6 were
missed at first. What was changed:
C03o (query strings were decodable pair by pair: `q=1&d=100%` and `n=a;b&q=1` are among them
now - a neighbouring pair that cannot be decoded takes nothing away from the parameter a flow
asks for; on the unchanged tree that alarmed for URLs that do not parse as a whole, where the
fallback of the earlier repair `2a196b5` dropped every parameter: corrected, fix `477a406`),
C04o (flows had at most a dozen connections per direction and listed the connection from the
stream's start first: one flow in five has 6-9 request filters, one in three lists the entry
connection anywhere among the others; the order of the others - the order of a fan-out -
stays),
C11o (a reload took no time: one step in ten is a reload whose HAProxy step takes 2-12 s,
transactions first seen in the meantime belong to the version that is still current, which
has to be kept for the whole retention period after it was superseded),
C08o (R3 compared the directory with old+payload only when no fault had fired; an update that
meets a fault and is answered 200 all the same is judged like any other accepted update now -
24 000 runs of the unchanged tree without a report),
C02o (the quota's filter never had a header condition: a quarter of the runs without a parent
give it one; responses may carry a header of that name with another value),
C17o (the long sequence ids had 50 characters: a third of them have 275 now).

### 12.1 Reverting the repairs

`tools/revert_all_fixes.py` reverts every `fix:` commit, one at a time, in a scratch worktree
of /repo HEAD and runs the quick check of its property (`seeded/fix-reverts.json`):

| commit | property | quick check on the reverted tree | rules |
|---|---|---|---|''')
fr='/verif/seeded/fix-reverts.json'
if os.path.exists(fr):
    for r in json.load(open(fr))['reverts']:
        out.append('| `%s` | %s | %s | %s |'%(r['commit'],r.get('property') or '-',r['result'],'; '.join(r.get('violations_reported') or [])[:140]))
out.append('''
''')
out.append(open('/verif/tools/design_status.md').read() if os.path.exists('/verif/tools/design_status.md') else '')
open(D,'w').write(s+'\n'.join(out)+'\n')
print('written')
