#!/bin/bash
# usage: run_on_mutant.sh <seeded-id> <property> [extra simctl args]
# applies /verif/seeded/<id>/patch.diff to /repo, runs the property's check without touching evidence, reverts.
ID=$1; P=$2; shift 2
cd /repo || exit 2
git diff --quiet || { echo "/repo has uncommitted changes"; exit 2; }
git apply --exclude='*policies.yaml' /verif/seeded/$ID/patch.diff || { echo "patch does not apply"; exit 2; }
cd /verif && ./simctl check $P --no-evidence "$@"; rc=$?
cd /repo && git checkout -- . 
echo "== $ID on $P: exit $rc"
exit $rc
