#!/bin/sh
# Offline build of the orchestrator and the source instrumenter (Go 1.26.8 toolchain, no network).
set -e
export GOFLAGS=-mod=mod GOPROXY=off GOSUMDB=off GOTOOLCHAIN=local
cd "$(dirname "$0")/sim"
mkdir -p bin
go1.26.8 build -o ../simctl ./cmd/simctl
go1.26.8 build -o bin/instrument ./cmd/instrument
echo "setup ok"
