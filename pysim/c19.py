#!/usr/bin/env python3
"""C19 - Python interceptor fail-safe: deterministic discrete-event simulation.

The real fail_safe.py, traffic_filter.py, configuration.py and the real
RequestsHook wrapper (hooks/requests.py) are imported from /repo. Configuration
enters through the documented environment variables and the package's own
wiring functions (_load_fail_safe / _build_traffic_filter_from_env_vars are
extracted from lunar_interceptor/__init__.py and executed, without running the
package initialisation that performs a handshake). Stubs: yarl.URL (urllib
based), requests (Session, ConnectionError, Timeout, get), DNS
(traffic_filter.gethostbyname), the clock (fail_safe.time).

Same protocol as the Go harness: VERIF_SEEDS=start:count or VERIF_TAPE=file,
VERIF_OUT=jsonl. One choice tape decides everything; 0 is the simplest choice.
"""
import ast
import importlib
import importlib.util
import json
import logging
import os
import socket
import sys
import types
import urllib.parse

SRC = os.environ.get("VERIF_REPO", "/repo") + "/interceptors/lunar-py-interceptor/lunar_interceptor/src"
PKG = SRC + "/lunar_interceptor"


# ---------------------------------------------------------------- tape ------
class Tape:
    def __init__(self, seed=None, values=None):
        self.state = ((seed or 0) * 0x9E3779B97F4A7C15 + 0x1234567) & (2**64 - 1)
        self.replay = values
        self.pos = 0
        self.rec = []

    def _next(self):
        self.state = (self.state + 0x9E3779B97F4A7C15) & (2**64 - 1)
        z = self.state
        z = ((z ^ (z >> 30)) * 0xBF58476D1CE4E5B9) & (2**64 - 1)
        z = ((z ^ (z >> 27)) * 0x94D049BB133111EB) & (2**64 - 1)
        return z ^ (z >> 31)

    def choose(self, n):
        if n <= 1:
            return 0
        if self.replay is not None:
            v = 0
            if self.pos < len(self.replay):
                v = abs(int(self.replay[self.pos])) % n
                self.pos += 1
        else:
            v = self._next() % n
        self.rec.append(v)
        return v

    def rng(self, lo, hi):
        return lo + self.choose(hi - lo + 1)

    def chance(self, num, den):
        return self.choose(den) >= den - num

    def weighted(self, w):
        v = self.choose(sum(w))
        for i, x in enumerate(w):
            if v < x:
                return i
            v -= x
        return len(w) - 1


# --------------------------------------------------------------- stubs ------
class StubURL:
    """Minimal yarl.URL replacement (urllib based)."""

    def __init__(self, url, _parts=None):
        self._p = _parts or urllib.parse.urlsplit(str(url))

    @property
    def host(self):
        return self._p.hostname

    @property
    def port(self):
        try:
            p = self._p.port
        except ValueError:
            p = None
        if p is None:
            return {"http": 80, "https": 443}.get(self._p.scheme)
        return p

    @property
    def scheme(self):
        return self._p.scheme

    def is_default_port(self):
        try:
            return self._p.port is None or self._p.port == {"http": 80, "https": 443}.get(self._p.scheme)
        except ValueError:
            return True

    def _with(self, scheme=None, host=None, port=None):
        sch = scheme if scheme is not None else self._p.scheme
        h = host if host is not None else (self._p.hostname or "")
        try:
            cur_port = self._p.port
        except ValueError:
            cur_port = None
        prt = port if port is not None else cur_port
        if ":" in h and not h.startswith("["):
            h = "[" + h + "]"
        netloc = h if prt is None else "%s:%s" % (h, prt)
        return StubURL(None, self._p._replace(scheme=sch, netloc=netloc))

    def with_scheme(self, s):
        return self._with(scheme=s)

    def with_host(self, h):
        return self._with(host=h)

    def with_port(self, p):
        return self._with(port=p)

    def __str__(self):
        return urllib.parse.urlunsplit(self._p)


class StubConnectionError(Exception):
    pass


class StubTimeout(Exception):
    pass


# as in requests: the failures a client meets on the way to a proxy are subclasses of ConnectionError
class StubSSLError(StubConnectionError):
    pass


class StubConnectTimeout(StubConnectionError, StubTimeout):
    pass


class StubResponse:
    def __init__(self, status=200, headers=None, tag=""):
        self.status_code = status
        self.headers = dict(headers or {})
        self.content = b"{}"
        self.tag = tag


def install_stubs():
    yarl = types.ModuleType("yarl")
    yarl.URL = StubURL
    sys.modules["yarl"] = yarl
    req = types.ModuleType("requests")

    class Session:
        def request(self, method, url, *a, **kw):  # replaced per simulation
            raise RuntimeError("stub transport not installed")

    req.Session = Session
    req.sessions = types.SimpleNamespace(Session=Session)
    req.models = types.SimpleNamespace(CaseInsensitiveDict=dict)
    req.Response = StubResponse
    req.ConnectionError = StubConnectionError
    req.Timeout = StubTimeout
    req.get = lambda *a, **k: StubResponse()
    sys.modules["requests"] = req
    # the other two client libraries the package hooks: enough of them for their hooks to be
    # constructed on the shared fail-safe, as the package does for every library that is
    # installed (they register their own connection errors there); no traffic goes through them
    aio = types.ModuleType("aiohttp")
    aio.client = types.ModuleType("aiohttp.client")

    class ClientSession:
        async def _request(self, *a, **kw):
            raise RuntimeError("stub")

    aio.client.ClientSession = ClientSession
    aio.ClientSession = ClientSession
    aio.typedefs = types.ModuleType("aiohttp.typedefs")
    aio.typedefs.StrOrURL = str
    aio.client_exceptions = types.ModuleType("aiohttp.client_exceptions")
    for n in ("ClientConnectionError", "ClientConnectorError", "ClientSSLError"):
        setattr(aio.client_exceptions, n, type(n, (Exception,), {}))
    aio.ClientResponse = object
    for m in (aio, aio.client, aio.typedefs, aio.client_exceptions):
        sys.modules[m.__name__] = m
    md = types.ModuleType("multidict")
    md.CIMultiDictProxy = dict
    md.CIMultiDict = dict
    sys.modules.setdefault("multidict", md)
    tor = types.ModuleType("tornado")
    tor.httpclient = types.ModuleType("tornado.httpclient")
    tor.httputil = types.ModuleType("tornado.httputil")
    tor.httpclient.HTTPClientError = type("HTTPClientError", (Exception,), {})
    tor.httpclient.HTTPRequest = type("HTTPRequest", (), {})
    tor.httpclient.HTTPResponse = type("HTTPResponse", (), {})
    tor.httpclient.AsyncHTTPClient = type("AsyncHTTPClient", (), {"fetch": lambda self, *a, **kw: None})
    tor.httputil.HTTPHeaders = dict
    for m in (tor, tor.httpclient, tor.httputil):
        sys.modules[m.__name__] = m
    # package skeletons so that the real package __init__ (handshake, hook
    # installation at import time) is not executed
    for name, path in (("lunar_interceptor", PKG), ("lunar_interceptor.interceptor", PKG + "/interceptor"),
                       ("lunar_interceptor.interceptor.hooks", PKG + "/interceptor/hooks")):
        m = types.ModuleType(name)
        m.__path__ = [path]
        sys.modules[name] = m
    return req


REQ = install_stubs()
fail_safe_mod = importlib.import_module("lunar_interceptor.interceptor.fail_safe")
traffic_filter_mod = importlib.import_module("lunar_interceptor.interceptor.traffic_filter")
configuration_mod = importlib.import_module("lunar_interceptor.interceptor.configuration")
requests_hook_mod = importlib.import_module("lunar_interceptor.interceptor.hooks.requests")
OTHER_HOOKS = {}
for _name, _cls in (("aiohttp", "AioHttpHook"), ("tornado", "TornadoHook")):
    try:
        OTHER_HOOKS[_name] = getattr(importlib.import_module("lunar_interceptor.interceptor.hooks." + _name), _cls)
    except Exception as _e:  # noqa: the stub does not carry this hook's imports: it stays out
        OTHER_HOOKS[_name] = None

LOGGER = logging.getLogger("verif-c19")
LOGGER.addHandler(logging.NullHandler())
LOGGER.propagate = False
LOGGER.setLevel(logging.CRITICAL)


def real_wiring():
    """Extract the package's own wiring functions from __init__.py."""
    src = open(PKG + "/__init__.py").read()
    tree = ast.parse(src)
    wanted = [n for n in tree.body if isinstance(n, ast.FunctionDef)
              and n.name in ("_load_fail_safe", "_build_traffic_filter_from_env_vars")]
    mod = ast.Module(body=wanted, type_ignores=[])
    return compile(mod, PKG + "/__init__.py", "exec")


WIRING = real_wiring()

# ------------------------------------------------------------ scenario ------
DNS = {
    "api.pub.com": "93.184.216.34", "edge.net": "172.32.0.1", "ten.net": "100.1.1.1", "twelve.org": "12.0.0.1",
    "svc.internal": "10.1.2.3", "lb.local": "127.0.0.1", "home.lan": "192.168.1.5", "corp.net": "172.20.0.9",
    "zero.host": "0.0.0.0", "nx.invalid": None,
    # the resolver fails in other ways than "name not found"
    "herr.invalid": "!herror", "slow.invalid": "!timeout", "nofd.invalid": "!emfile",
}
LITERALS = ["8.8.8.8", "172.15.0.1", "10.0.0.7", "127.0.0.1", "172.16.5.5", "192.168.0.1", "0.0.0.0", "100.64.0.1"]
WEIRD = ["::1", "2001:db8::1", "fc00::1", "", "1234", "ünï.com", "a b", "....", "[::1]", "999.1.1.1", "localhost"]
PRIVATE_NETS = ["10.0.0.0/8", "127.0.0.0/8", "172.16.0.0/12", "192.168.0.0/16", "0.0.0.0/32"]


def is_private_v4(ip):
    import ipaddress
    a = ipaddress.ip_address(ip)
    return any(a in ipaddress.ip_network(n) for n in PRIVATE_NETS)


def model_allows(host, allow, block, filter_ok):
    """Independent reading of the traffic-filter part of the property.
    Returns True / False / None (None = either is acceptable)."""
    if not filter_ok:
        return False
    if allow is not None:
        return host in allow
    if block and host in block:
        return False
    if host in DNS:
        ip = DNS[host]
        if ip is None or ip.startswith("!"):
            return None  # unresolvable: not stated
        return not is_private_v4(ip)
    try:
        import ipaddress
        a = ipaddress.ip_address(host)
    except ValueError:
        return None
    if a.version == 4:
        return not is_private_v4(host)
    return None


class Run:
    def __init__(self, seed, tape):
        self.seed, self.tape = seed, tape
        self.events, self.viol = [], []
        self.rules, self.faults, self.probes, self.states = {}, {}, {}, set()
        self.now = 1_000_000.0
        self.sig = 1469598103934665603
        self.nontrivial = False
        self.knobs = {}

    def ev(self, kind, *a):
        self.events.append({"q": len(self.events) + 1, "t": int((self.now - 1_000_000.0) * 1e9), "k": kind, "a": [str(x) for x in a]})

    def rule(self, r):
        self.rules[r] = self.rules.get(r, 0) + 1

    def fault(self, k):
        self.faults[k] = self.faults.get(k, 0) + 1

    def violate(self, rule, sig, detail):
        self.viol.append({"rule": rule, "sig": sig, "detail": detail})
        self.ev("VIOLATION", rule, sig, detail)

    def mix(self, s):
        for ch in str(s):
            self.sig = ((self.sig ^ ord(ch)) * 1099511628211) & (2**64 - 1)


def simulate(run):
    tp = run.tape
    enter_after = tp.rng(1, 5)
    cooldown = [1, 2, 5, 10, 30][tp.choose(5)]
    lists = tp.weighted([4, 2, 2, 1])  # none / allow / block / invalid block entry
    allow = block = None
    filter_ok = True
    env_allow = env_block = None
    if lists == 1:
        allow = ["api.pub.com", "8.8.8.8"]
        env_allow = ",".join(allow)
    elif lists == 2:
        block = ["edge.net", "100.64.0.1"]
        env_block = ",".join(block)
    elif lists == 3:
        env_block = "edge.net,not a host!!"
        filter_ok = False
    n_ops = tp.rng(5, 40)
    run.knobs = {"enter_after": enter_after, "cooldown_s": cooldown, "lists": ["none", "allow", "block", "invalid-block"][lists], "ops": n_ops}
    run.mix(run.knobs)

    # --- configuration through the documented environment variables ---
    for k in ("LUNAR_ENTER_COOLDOWN_AFTER_ATTEMPTS", "LUNAR_EXIT_COOLDOWN_AFTER_SEC", "LUNAR_ALLOW_LIST", "LUNAR_BLOCK_LIST"):
        os.environ.pop(k, None)
    os.environ["LUNAR_ENTER_COOLDOWN_AFTER_ATTEMPTS"] = str(enter_after)
    os.environ["LUNAR_EXIT_COOLDOWN_AFTER_SEC"] = str(cooldown)
    if env_allow:
        os.environ["LUNAR_ALLOW_LIST"] = env_allow
    if env_block:
        os.environ["LUNAR_BLOCK_LIST"] = env_block
    cfg_mod = importlib.reload(configuration_mod)
    conn = cfg_mod.ConnectionConfig(is_valid=True, proxy_host="gateway.sim", proxy_port=8000, proxy_scheme="http",
                                    proxy_url="http://gateway.sim:8000", proxy_host_with_port="gateway.sim:8000")
    icfg = cfg_mod.InterceptorConfig(connection_config=conn)
    ns = {"FailSafe": fail_safe_mod.FailSafe, "TrafficFilter": traffic_filter_mod.TrafficFilter,
          "ProxyErrorException": fail_safe_mod.ProxyErrorException, "interceptor_config": icfg, "_LOGGER": LOGGER}
    exec(WIRING, ns)
    fs = ns["_load_fail_safe"]()
    tf = ns["_build_traffic_filter_from_env_vars"]()

    # --- seams: clock, DNS, transport ---
    fail_safe_mod.time = lambda: run.now

    def resolver(host):
        ip = DNS.get(host)
        if ip is None:
            run.fault("dns_failure")
            raise socket.gaierror("simulated resolution failure for %s" % host)
        if ip.startswith("!"):
            run.fault("dns_failure_other_than_not_found")
            if ip == "!herror":
                raise socket.herror(1, "simulated host lookup failure for %s" % host)
            if ip == "!timeout":
                raise TimeoutError("simulated resolver timeout for %s" % host)
            raise OSError(24, "Too many open files")
        return ip

    traffic_filter_mod.gethostbyname = resolver
    calls = []  # (leg, host)
    plan = {}

    def transport(self, method, url, *a, **kw):
        host = urllib.parse.urlsplit(url).hostname
        leg = "gateway" if host == "gateway.sim" else "direct"
        calls.append((leg, host))
        my = dict(plan)  # nested calls made by the in-flight hook overwrite the shared plan
        if leg == "gateway":
            hook = plan.get("inflight")
            if hook:
                plan["inflight"] = None
                hook()
            plan.clear()
            plan.update(my)
            plan["inflight"] = None
            out = plan.get("gateway", "ok")
            if out == "error-header":
                return StubResponse(200, {"x-lunar-error": "3"}, "gw-error")
            if out == "connection-error":
                raise StubConnectionError("simulated connection error to the gateway")
            if out == "connection-error-ssl":
                raise StubSSLError("simulated TLS failure towards the gateway")
            if out == "connection-error-connect-timeout":
                raise StubConnectTimeout("simulated connect timeout towards the gateway")
            if out == "app-exception":
                raise ValueError("application error " + plan.get("tag", ""))
            if out == "timeout":
                raise StubTimeout("application-visible timeout " + plan.get("tag", ""))
            if out == "keyboard-interrupt":
                raise KeyboardInterrupt()
            return StubResponse(200, {}, "via-gateway")
        if plan.get("direct") == "app-exception":
            raise ValueError("direct application error " + plan.get("tag", ""))
        return StubResponse(200, {}, "direct")

    REQ.Session.request = transport
    # the package builds one hook per installed client library on the one fail-safe, in
    # this order: aiohttp, requests, tornado
    installed = [[], ["aiohttp"], ["tornado"], ["aiohttp", "tornado"]][tp.choose(4)]
    run.knobs["other_client_libraries_installed"] = ",".join(installed) or "none"
    if "aiohttp" in installed and OTHER_HOOKS.get("aiohttp"):
        OTHER_HOOKS["aiohttp"](LOGGER, fs, tf, conn)
    hook = requests_hook_mod.RequestsHook(LOGGER, fs, tf, conn)
    if "tornado" in installed and OTHER_HOOKS.get("tornado"):
        OTHER_HOOKS["tornado"](LOGGER, fs, tf, conn)
    wrapped = hook._hook_module()
    session = REQ.Session()

    # --- reference circuit breaker: tracks the observed state and judges every transition ---
    ref = {"open": False, "opened_at": 0.0, "strict": 0, "lenient": 0, "since": 0, "post_cooldown": False}

    def ref_closed():
        """Closed as far as routing is concerned (the cool-down ends the open state)."""
        if ref["open"] and run.now - ref["opened_at"] >= cooldown:
            ref["open"] = False
            # the count that opened the breaker may still stand - unless a call that had
            # been sent through the gateway before it opened succeeded in the meantime
            ref["post_cooldown"] = not ref.get("cleared_while_open", False)
            ref["cleared_while_open"] = False
            ref["since"] = 0  # failures since the breaker closed again
        return not ref["open"]

    def ref_failure():
        ref["strict"] += 1
        ref["lenient"] += 1
        ref["since"] += 1

    def ref_gateway_success():
        ref["strict"] = ref["lenient"] = ref["since"] = 0
        ref["post_cooldown"] = False
        if ref["open"]:
            ref["cleared_while_open"] = True

    def judge_state(last_was_gateway_failure):
        """Compare the real fail-safe with what the statement allows."""
        run.rule("R2")
        was_open = ref["open"]
        expect_closed = ref_closed()
        real_open = not fs.state_ok
        if real_open and not was_open and expect_closed:
            # it opened now: only legal at the threshold (or on the first failure
            # after a cool-down, when the earlier count may still stand)
            legal = ref["strict"] >= enter_after or (ref["post_cooldown"] and last_was_gateway_failure)
            if not legal:
                run.violate("R2", "opened-before-threshold", "the fail-safe opened after %d consecutive gateway-side failures, threshold %d" % (ref["strict"], enter_after))
            ref["open"], ref["opened_at"] = True, run.now
            ref["post_cooldown"] = False
            ref["cleared_while_open"] = False
            run.nontrivial = True
            return
        if real_open and was_open and expect_closed:
            run.rule("R3")
            run.violate("R3", "still-open-after-cooldown", "the fail-safe is still open %.3f s after it opened, cool-down %d s" % (run.now - ref["opened_at"], cooldown))
            return
        if (not real_open) and not expect_closed:
            run.rule("R3")
            run.violate("R3", "closed-before-cooldown", "the fail-safe closed %.3f s after it opened, cool-down %d s" % (run.now - ref["opened_at"], cooldown))
            return
        # the count is cleared by a successful call through the gateway and by nothing else:
        # it also stands when the cool-down has passed, so a gateway failure that brings or
        # keeps it at the threshold leaves the breaker open, whenever it is recorded
        if (not real_open) and (ref["since"] >= enter_after or (last_was_gateway_failure and ref["strict"] >= enter_after)):
            if ref["lenient"] < enter_after:
                run.violate("R2", "failure-count-cleared-by-call-that-bypassed-the-gateway",
                            "%d consecutive gateway-side failures were seen (threshold %d) but the fail-safe is still closed: a call that was not routed through the gateway cleared the count" % (ref["since"], enter_after))
                # follow the implementation from here on so that the rest of the history is still judged
                ref["strict"] = ref["since"] = ref["lenient"]
            else:
                run.violate("R2", "did-not-open-at-threshold", "%d consecutive gateway-side failures were seen (threshold %d) but the fail-safe is still closed" % (ref["strict"], enter_after))

    def one_call(host, outcome, direct_outcome, tag, inflight=None):
        """Issues one application call through the real wrapper; returns a description."""
        url = "http://%s/x" % (("[%s]" % host) if ":" in host else host)
        plan.clear()
        plan.update({"gateway": outcome, "direct": direct_outcome, "tag": tag, "inflight": inflight})
        before = len(calls)
        closed = ref_closed()
        allowed = model_allows(host, allow, block, filter_ok)
        got_exc, resp = None, None
        try:
            resp = wrapped(session, "GET", url)
        except BaseException as e:  # noqa: the property is about what reaches the caller
            got_exc = e
        legs = [c[0] for c in calls[before:] if True]
        # nested calls made by the in-flight hook are not this call's legs
        own = legs[:1] + [l for l in legs[1:] if l == "direct"][-1:] if legs else []
        via_gateway = bool(legs) and legs[0] == "gateway"
        run.ev("call", host, "planned=%s" % outcome, "closed=%s" % closed, "allowed=%s" % allowed,
               "legs=%s" % "+".join(legs), "exc=%s" % (type(got_exc).__name__ if got_exc else "-"),
               "real_counter=%s real_ok=%s" % (getattr(fs, "_error_counter", "?"), getattr(fs, "_state_ok", "?")))
        # R1 / R5 routing
        run.rule("R1")
        expect_gateway = closed and (allowed is True)
        forbid_gateway = (not closed) or (allowed is False)
        if via_gateway and forbid_gateway:
            which = "R5" if closed else "R1"
            sig = "routed-through-gateway-although-excluded" if closed else "routed-through-gateway-while-open"
            run.violate(which, sig, "call to %s went through the gateway although the breaker is %s and the traffic filter verdict is %s" % (
                host, "closed" if closed else "open", allowed))
        if (not via_gateway) and expect_gateway:
            run.violate("R1", "bypassed-gateway-although-closed-and-allowed", "call to %s was sent directly although the breaker is closed (consecutive failures %d, threshold %d) and the destination is allowed" % (
                host, ref["strict"], enter_after))
        # R4 exceptions / R2 bookkeeping
        if via_gateway:
            run.nontrivial = True
            if outcome == "error-header" or outcome.startswith("connection-error"):
                run.fault("gateway_failure")
                run.rule("R4")
                if got_exc is not None:
                    if not (direct_outcome == "app-exception" and isinstance(got_exc, ValueError) and "direct application error" in str(got_exc)):
                        run.violate("R4", "gateway-failure-reached-caller", "a gateway-side failure (%s) reached the application as %r" % (outcome, got_exc))
                elif direct_outcome == "app-exception":
                    run.violate("R4", "application-exception-swallowed", "the direct retry after a gateway failure raised an application error that was swallowed")
                elif resp is None or resp.tag != "direct":
                    run.violate("R4", "gateway-failure-not-retried-directly", "after a gateway-side failure the application did not get the provider's direct response (got %r)" % (getattr(resp, "tag", None),))
                ref_closed()  # the call may have been in flight for longer than a cool-down: the failure is recorded now
                ref_failure()
            elif outcome in ("app-exception", "timeout", "keyboard-interrupt"):
                run.fault("application_exception")
                run.rule("R4")
                if got_exc is None:
                    run.violate("R4", "application-exception-swallowed", "an exception that does not come from the gateway (%s) was swallowed; the application got %r" % (outcome, getattr(resp, "tag", None)))
            else:
                ref_gateway_success()
                if got_exc is not None:
                    run.violate("R4", "spurious-exception", "a successful call raised %r" % (got_exc,))
        else:
            ref["lenient"] = 0  # what the implementation does today for every call that bypasses the gateway; the strict count stays
            if direct_outcome == "app-exception":
                run.rule("R4")
                if got_exc is None:
                    run.violate("R4", "application-exception-swallowed", "a direct-call application exception was swallowed")
            elif got_exc is not None:
                run.violate("R4", "spurious-exception", "a direct call raised %r" % (got_exc,))
        judge_state(via_gateway and (outcome == "error-header" or outcome.startswith("connection-error")))
        return via_gateway

    hosts_pub = ["api.pub.com", "edge.net", "ten.net", "twelve.org", "8.8.8.8", "172.15.0.1"]
    hosts_all = list(DNS.keys()) + LITERALS
    outcomes = ["ok", "error-header", "connection-error", "app-exception", "timeout", "keyboard-interrupt",
                "connection-error-ssl", "connection-error-connect-timeout"]
    def fatal():
        return any(v["sig"] != "failure-count-cleared-by-call-that-bypassed-the-gateway" for v in run.viol)

    for op in range(n_ops):
        if fatal():
            break
        # clock advance
        gap_menu = [0.0, 0.001, 1.0]
        if ref["open"]:
            end = ref["opened_at"] + cooldown
            for g in (end - 1e-3, end, end + 1e-3):
                if g > run.now:
                    gap_menu.append(g - run.now)
        gap_menu.append(float(cooldown) * 2)
        run.now += gap_menu[tp.choose(len(gap_menu))]
        kind = tp.weighted([10, 3, 2])
        if kind == 0:
            host = hosts_pub[tp.choose(len(hosts_pub))] if tp.chance(3, 4) else hosts_all[tp.choose(len(hosts_all))]
            outcome = outcomes[tp.weighted([5, 4, 3, 1, 1, 1, 1, 1])]
            direct = "app-exception" if tp.chance(1, 10) else "ok"
            one_call(host, outcome, direct, "op%d" % op)
        elif kind == 1:
            # R5: the filter decision itself never raises, for any host string
            h = (WEIRD + LITERALS)[tp.choose(len(WEIRD) + len(LITERALS))]
            run.rule("R5")
            try:
                v = tf.is_allowed(h, {})
                run.ev("is_allowed", repr(h), v)
                m = model_allows(h, allow, block, filter_ok)
                if m is False and v:
                    run.violate("R5", "excluded-destination-allowed", "is_allowed(%r) = True although the destination is excluded / private / loopback" % h)
            except BaseException as e:  # noqa
                run.violate("R5", "is_allowed-raised:%s" % type(e).__name__, "TrafficFilter.is_allowed(%r) raised %r into the application" % (h, e))
        else:
            # an in-flight call: while call A is inside the gateway, other calls fail and
            # open the breaker; then A ends with an application-visible exception
            host = hosts_pub[tp.choose(2)]
            k = tp.rng(1, enter_after + 1)
            final = ["timeout", "app-exception", "ok", "connection-error", "error-header"][tp.choose(5)]
            # A hangs in the gateway for longer than the cool-down and fails there in the end:
            # a gateway failure recorded after the cool-down, with no call in between
            hang = 0.0
            if final in ("connection-error", "error-header") or tp.chance(1, 4):
                hang = float(cooldown) + [0.0, 0.001, 1.0][tp.choose(3)]

            def others(k=k, hang=hang):
                for j in range(k):
                    one_call("api.pub.com", ["connection-error", "error-header"][j % 2], "ok", "nested%d" % j)
                if hang:
                    run.now += hang
                    run.fault("in_flight_call_outlasts_the_cooldown")

            run.fault("in_flight_call_overlaps_breaker_opening")
            one_call(host, final, "ok", "inflight%d" % op, inflight=others)
        run.states.add("%s/%d" % ("open" if ref["open"] else "closed", ref["strict"]))
        if not fatal():
            judge_state(False)


def main():
    out = os.environ.get("VERIF_OUT", "/dev/stdout")
    jobs = []
    tf = os.environ.get("VERIF_TAPE")
    if tf:
        d = json.load(open(tf))
        jobs.append((d.get("seed", 0), Tape(values=d.get("tape", []))))
    else:
        start, _, count = os.environ.get("VERIF_SEEDS", "1:1").partition(":")
        for i in range(int(count or 1)):
            s = int(start) + i
            h = s ^ 0xC19C19C19
            jobs.append((s, Tape(seed=h)))
    with_events = os.environ.get("VERIF_EVENTS") == "1"
    with open(out, "a") as f:
        for seed, tape in jobs:
            run = Run(seed, tape)
            herr = ""
            try:
                simulate(run)
            except Exception as e:  # harness trouble, never a violation
                import traceback
                herr = "harness error: %r\n%s" % (e, traceback.format_exc())
            run.mix(tape.rec)
            res = {"scenario": "C19", "seed": seed, "tape": tape.rec, "knobs": run.knobs, "violations": run.viol,
                   "stats": {"sim_ns": int((run.now - 1_000_000.0) * 1e9), "steps": len(run.events), "faults": run.faults,
                             "probes": run.probes, "rules": run.rules, "sig": "%016x" % run.sig,
                             "states": sorted(run.states), "nontrivial": run.nontrivial}}
            if herr:
                res["harness_err"] = herr
            if with_events or run.viol:
                res["events"] = run.events[-400:]
            f.write(json.dumps(res) + "\n")


if __name__ == "__main__":
    main()
