#!/usr/bin/env python3
"""Writes MANIFEST.json from the table below (kept in one place so it stays valid)."""
import json, subprocess

HOOK_COMMITS = subprocess.run(
    ["git", "-C", "/repo", "log", "--format=%h %s", "--grep=^verif hooks"],
    capture_output=True, text=True).stdout.strip().splitlines()

CHECKS = {
 "C19": dict(
   text="Python discrete-event simulation (stdlib only, same tape / shrinking / replay protocol as the Go harness) of the real FailSafe, TrafficFilter, configuration and RequestsHook wrapper, configured through the documented environment variables and the package's own wiring functions: seeded histories of calls (gateway success, gateway-side failure, application exceptions, failing direct calls), filter probes with arbitrary host strings, scripted DNS (public / private / loopback / failure), a patched clock with advances around the cool-down end, and in-flight calls during which other calls open the breaker. Reference circuit breaker judges every transition (R2 open at the threshold of consecutive gateway failures, R3 cool-down), routing (R1), exception propagation (R4) and the traffic filter incl. 'never raises' (R5). Sampling, not proof.",
   design_ref="DESIGN.md section 4 C19",
   note="Trusted: stub requests/yarl modules and the scripted resolver; concurrency is simulated by re-entrancy, Python threads are not scheduled; one open known finding (failure count cleared by calls that bypass the gateway).",
   technique="deterministic simulation: seeded call/fault/clock histories against a reference circuit breaker (Python discrete-event loop with choice tape)"),
 "C15": dict(
   text="Seeded simulation of the real discovery aggregation (discovery.Run, State persistence, BuildTree with a small convergence threshold): one generated access-log stream is delivered as a single batch and again under seeded batch splits (incl. empty and singleton batches), half of them with restarts between batches after which only the state file survives (new State from the file, new URL tree). Oracles: R1 conservation (endpoint counts = non-internal records = status sums, also per consumer), R2 batch invariance against the single-batch result (keys, counts, status maps, min/max exactly, averages within 1e-3), R3 a 30-line reference aggregator keyed by the final tree's normalisation, R4 totals and per-method totals preserved across restarts. Sampling, not proof.",
   design_ref="DESIGN.md section 4 C15",
   note="Trusted: the reference aggregator; float tolerance 1e-3; the schedule dimension is thin (batch boundaries and restarts), most of the power is the reference model; torn/failed state-file writes are not injected.",
   technique="deterministic simulation: seeded batch-split and restart histories (only durable state survives) against a reference aggregator and the single-batch run"),
 "C18": dict(
   text="Two monitors over the real engine inside the simulator. (i) Data races: the harness is built with -race and the Go race detector is the invariant monitor; 2-5 goroutines drive overlapping transactions through shared flows and quotas of the real HandlingDataManager together with a metrics read, a proxy-error report and a PUT /configuration reload, and, in policy mode, transaction lookups with policy swaps, a fail-safe revert and the vacuum goroutines; interleavings come from fake-time delays at every instrumented lock site, a pure function of seed and call site (the token scheduler is not used here: its hand-off would add happens-before edges and hide races). Every report with an engine frame is a violation, identified by its pair of top engine frames. (ii) Serial equivalence: 2-3 transactions overlap under the token scheduler with the clock frozen; their outcome vector must equal that of one of the N! serial orders on fresh engines (half of the runs through the SPOE message handler, a third with simulated blocking). (iii) Policy mode under the race detector (C18P): SPOE frames through the message handler with the real remedy plugins, two diagnoses and an optional reload. (iv) The vacuum's entry list under interleaving (C18V: every registered key leaves the map) and the concurrency limiter with its vacuum under simulated blocking (C18L: no deadlock, every operation returns). Sampling, not proof.",
   design_ref="DESIGN.md section 4 C18",
   note="Trusted: the Go race detector (happens-before, so reports do not depend on physical overlap); GORACE halt_on_error=0 so that one run yields all its reports; the implementation as its own sequential specification for (ii); one open known finding (per-flow transactional context written by every transaction) is listed in known-findings.json and printed as KNOWN-FINDING.",
   technique="deterministic simulation with the race detector as invariant monitor (stateless seeded delays at lock sites) plus schedule exploration against all serial orders, with simulated lock blocking and deadlock detection"),
 "C05": dict(
   text="Seeded deterministic simulation with one OS process per generated configuration, so that a fatal error of the engine (stack overflow, panic) is an observable outcome: arbitrary small flow graphs (a well-formed skeleton plus extra connections incl. self-loops, back edges, cycles under one condition and in root-less response directions, undeclared names, bogus conditions, textual YAML damage) and quota files with the usual mistakes go through the gateway's own dry-run validation; accepted ones are loaded for real under both load orders and driven with 10 transactions (random steering, malformed and large bodies, odd paths). R1 validation returns, R2 accepted => real load succeeds, R3 accepted => every transaction side finishes within 1000 processor executions without panic or process death. Sampling of the configuration space, not enumeration.",
   design_ref="DESIGN.md section 4 C05",
   note="Trusted: the 1000-step budget as the meaning of 'bounded'; an engine panic counts as a crash (the SPOE worker has no recover); flow references not generated; this property is mostly an input-space property - the simulator contributes process isolation, the step counter hook and the load-order seam.",
   technique="deterministic simulation: crash-isolated runs of generated configurations with a processor-execution budget (bounded liveness) and load-order control"),
 "C04": dict(
   text="Seeded deterministic simulation: generated well-formed flow graphs (branching, fan-out on equal conditions, joins, early-response nodes, response chains with and without root, optional quota system flow, 1-2 flows on one URL in a load order chosen by the simulator) are loaded into the real engine and driven with steered transactions; the per-flow sequence of processor-executed events (verifhook event in the executor) is compared with a reference interpreter over the YAML connections (R1), and the presence and status of the early response with the interpreter's verdict (R2). Sampling, not proof.",
   design_ref="DESIGN.md section 4 C04",
   note="Trusted: the reference interpreter (40 lines) and its reading of the statement (an early response ends the whole request walk); flow references not generated; the schedule dimension is the load order only - the rest is program generation against a reference interpreter.",
   technique="deterministic simulation: generated flow programs and steering inputs under a simulator-chosen load order, differential oracle against a reference interpreter"),
 "C03": dict(
   text="Seeded deterministic simulation in which the load order of flows - in production the iteration order of a Go map, re-drawn at every start and reload - is a scheduling decision of the simulator (verifhook.Order seam in the flow builder). Each run loads the same generated flow files under 2-4 orders (load, reloads) into the real streams engine and sends 6-24 derived transactions (request and response side). Oracles: independent segment-wise matcher for R1 only-if and R2 if (with a generous shadowing exemption), R3 the applied-flow set of every transaction is identical under every order tried (needs no matcher), R4 no action for unmatched transactions. Sampling, not proof.",
   design_ref="DESIGN.md section 4 C03",
   note="Trusted: the independent matcher (60 lines) and its undecided case (trailing wildcard vs empty suffix); header/query judged on requests, status on responses; methods GET/POST/PUT only; the schedule dimension here is the load order only - the rest is input generation against a reference.",
   technique="deterministic simulation: load order as seeded schedule over load/reload histories, differential oracle against an independent matcher plus order-independence"),
 "C08": dict(
   level="fault_enumeration",
   text="Fault enumeration plus seeded simulation over the real /configuration and /apply_flows handlers (verif-only HandlingDataManager constructor, httptest), the real FileSystemOperation on a temporary tree, real validation/reload and a simulated HAProxy. C08E: for both endpoints x 8 payload classes, a recording run lists every file-system and HAProxy call the update passes through and one run per listed point fails exactly that call (writes are torn). C08S: 0-3 simultaneous faults incl. faults on the restore path, and probe transactions overlapping the update at the engine-built-not-published point, at fault points and at lock sites. Oracles: R1 directory digest unchanged after a non-2xx, R2 probe verdict vector unchanged after a non-2xx, R3 after 2xx directory = old+payload and running engine = fresh engine on that directory, R4 every probe during the switch saw the old or the new configuration. R1/R2 are not demanded when more than one failure hit one update.",
   design_ref="DESIGN.md section 4 C08",
   note="Trusted: the fault list is the set of verifhook.Fault points in gateway_file_system.go plus every simHAProxy call; faults are returned errors (no process crash); the managed tree is flows/, quotas/, path_params/, gateway config and user metrics file; 6 probe transactions stand for 'behaviour'.",
   technique="deterministic simulation with single-fault enumeration over recorded fault points, seeded multi-fault runs and probes concurrent with the configuration switch"),
 "C20": dict(
   text="Seeded deterministic simulation of the real StateChangeWatcher goroutine on the fake clock with generated settings and scripted health observation sequences (steady, single change, flapping below/above the thresholds, random persistence). Trace oracle over the recorded observations and reactions: R1 reactions alternate starting with unhealthy, R2 each reaction is backed by >= N consecutive equal observations spanning >= the stable period, R3 no reaction inside the cool-down after an unhealthy reaction, R4 flapping never reacts (follows from R2 on every reaction). Sampling, not proof.",
   design_ref="DESIGN.md section 4 C20",
   note="Trusted: synctest fake clock; the predicate script and the recorded callbacks; only-if oracle (a missing reaction is never flagged); the real revert reactions are not wired here.",
   technique="deterministic simulation: seeded observation scripts and settings on a fake clock with a trace oracle over observations and reactions"),
 "C11": dict(
   text="Seeded deterministic simulation of the real TxnPoliciesAccessor with its two MapVacuum goroutines on the fake clock, fed through the real policies file loader and a simulated HAProxy admin API: histories of transaction request/response lookups, apply-policies, apply with HAProxy failure, fail-safe reverts, clock targets on vacuum ticks and around the 30 s retention, concurrent groups interleaved at instrumented lock sites. Oracle: version table + pin per transaction: R1 response sees the request's version inside the retention, R2 a new transaction after a successful apply sees the newest version, R3 a failed apply changes nothing, R4 never empty policies. Sampling, not proof.",
   design_ref="DESIGN.md section 4 C11",
   note="Trusted: synctest fake clock; retention counted from the first lookup; configuration changes serial among themselves; simHAProxy answers what the scenario tells it to.",
   technique="deterministic simulation: seeded reload/revert/transaction histories with retention-instant clock targets and lock-site interleaving against a reference version table"),
 "C17": dict(
   text="Seeded deterministic simulation in both modes and through the policy-mode dispatcher (real runner.DispatchOnRequest/OnResponse with real PoliciesServices; a logical call is re-sent while a retry is asked for, the retry-eligible answer being a provider response or an early response of the gateway itself): the real policy-mode RetryPlugin (state in MemoryCache, TTL cooldown+31 s, clock gaps at the state lifetime -1 ns / exactly / +1 ns, id reuse, 3 interleaved sequences) and the real streams engine with a Filter -> Retry response flow whose cool-down waits run on the fake clock, several sequences concurrently in flight and interleaved at instrumented lock sites. Oracle per logical call: R1 retry verdicts <= attempts, R2 failure after exhaustion and a later call starting afresh is granted its retry, R3 out-of-condition responses never retry and (policy mode) end the sequence. Sampling, not proof.",
   design_ref="DESIGN.md section 4 C17",
   note="Trusted: synctest fake clock; definition of a logical call (txn id == sequence id starts one); fewer retries than configured are within 'at most' (no exactness rule); flows-mode 'ends the sequence' not checked (conditions live in the flow's Filter).",
   technique="deterministic simulation: seeded response-status histories across interleaved sequences with state-lifetime clock targets, per-call reference counter"),
 "C12": dict(
   text="Seeded deterministic simulation of the real CachingPlugin and ResponseBasedThrottlingPlugin over the real MemoryCache (its sleeper goroutines run on the fake clock): histories of store/lookup events over a small key space with unique bodies, clock targets at expiry -1 ns / exactly / +1 ns, re-stores right at expiry, 0.3 MB bodies against a 1 MB cache, concurrent groups interleaved at instrumented lock sites. Oracle: reference map body -> (key, stored_at, ttl): R1 replay only of a body stored for that key, R2 never after stored_at+ttl, R3 Retry-After reduced by elapsed time (relative) or unchanged (absolute), R4 replayable bytes <= configured cache size at quiescent probes. Sampling, not proof.",
   design_ref="DESIGN.md section 4 C12",
   note="Trusted: synctest fake clock; a miss is always legal; freshness includes the expiry instant itself; absolute retry-after has whole-second resolution; size judged on body bytes.",
   technique="deterministic simulation: seeded store/lookup histories with expiry-instant clock targets and lock-site interleaving against a reference map with expiries"),
 "C09": dict(
   text="Seeded deterministic simulation of the real StrategyBasedThrottlingPlugin + RateLimitState on a fake clock: histories of requests at instants on the epoch grid (k*W exactly, +-1 ns, mid-window, several windows later), group allocation tables with fractional percentages and every default behaviour, concurrent bursts interleaved at instrumented lock sites. Oracle: reference pass counter per (remedy, group, grid window); R1 bound, R2 no spurious rejection (sequential), R3 configured status, isolation by construction of the per-key reference. Sampling, not proof.",
   design_ref="DESIGN.md section 4 C09",
   note="Trusted: synctest fake clock; grid window of t is floor(t/W); share = ceil(allowed*pct/100) in exact integer arithmetic; no window-size changes.",
   technique="deterministic simulation: seeded boundary-instant histories and lock-site interleaved bursts against a reference per-window counter"),
 "C06": dict(
   text="Seeded deterministic simulation of the real streams engine with a Queue processor on a fixed-window quota: the 100 ms processing loop, the TTL watcher and the removal goroutines are the engine's own and run on the fake clock. Arrivals with priorities, clock targets on/next to processing ticks, window ends and TTL expiries, stalls of request goroutines at instrumented lock sites, context cancel at a random step. Oracles: R1 exactly one verdict within TTL + 1 s once stalls stop, R2 grants per quota window <= max, R3 priority then FIFO order at every grant (engine push timestamps), R4 waiters <= queue_size at quiescent points, R5 shutdown releases waiters and the process survives (a crash of the child is a violation). Scenario C06L runs the same processor with simulated blocking (locks taken through the simulator, tasks parked inside critical sections, a waiting writer shuts out readers): once faults stop every request has its verdict, and a state in which every live task waits for a lock is a deadlock. Sampling, not proof.",
   design_ref="DESIGN.md section 4 C06",
   note="Trusted: synctest fake clock; verifhook decision events; TimerSlack (+1 ms on the watcher's zero wait under the verif tag); slack 1 s; requests entering the queue after the drain are outside the property; Go's select/map-iteration randomness is not controlled (oracles are insensitive to it).",
   technique="deterministic simulation: seeded arrival/clock/stall/shutdown schedules over the real queue goroutines with history oracles; simulated lock blocking with deadlock detection; child-process crash detection"),
 "C02": dict(
   text="Seeded deterministic simulation of the real streams engine with a concurrency quota (optional parent quota, optional second flow answering early after admission), its GC goroutine on the fake clock and a fake cluster liveness. Histories of request / response / proxy-error / abandon / duplicate-end / instance-left events with clock targets around expiry and expiry+GC, single or in concurrent groups interleaved at instrumented lock sites. Oracles: R1 certain holders <= max at every admission (sequence-number based), R2 capacity probes at quiescent points bound free slots from both sides (leak / double release), R3 full capacity after everything ended or expired. Sampling, not proof.",
   design_ref="DESIGN.md section 4 C02",
   note="Trusted: synctest fake clock; slot must be held until expiry (+10 ms) and may be held until one GC interval + 1 s later; the harness's definition of in-flight (admitted request returned .. end event invoked).",
   technique="deterministic simulation: seeded event histories with abandon/error/expiry faults and lock-site interleaving, capacity-probe oracle against a reference in-flight set"),
 "C01": dict(
   text="Seeded deterministic simulation of the real streams engine (Limiter -> GenerateResponse flows over a generated 1-3 level fixed-window quota hierarchy with header groups) inside a synctest bubble. Sequential histories place requests exactly on, 1 ns before and after window ends and across long gaps; concurrent bursts are interleaved at instrumented lock sites. Oracle: executable reference counter per (quota, group, window) in two window-anchor readings; R1 bound (all runs), R2 no spurious refusal (sequential). Sampling, not proof.",
   design_ref="DESIGN.md section 4 C01",
   note="Trusted: synctest fake clock; reference model's reading of 'window' (anchored at first request, exact or truncated to seconds); each level has its own URL; bursts judged on the bound only.",
   technique="deterministic simulation: seeded history + boundary-instant clock search + lock-site interleaving against a reference window counter"),
 "C10": dict(
   text="Seeded deterministic simulation of the real StrategyBasedQueuePlugin + DelayedPriorityQueue inside a synctest bubble (fake clock, token scheduler). Thousands of generated histories with stalls at the Unlock->select hand-off and at instrumented lock sites, clock targets on and next to window ends and TTL expiries; oracles R1 no stranding, R2 grants per window <= quota, R3 waiters <= queue size, R4 release order, R5 refusal only when full, evaluated on the engine's own decision events. Sampling, not proof.",
   design_ref="DESIGN.md section 4 C10",
   note="Trusted: testing/synctest fake clock and quiescence detection, the verifhook events emitted under the queue mutex, GOMAXPROCS=1 without async preemption; interleavings only at lock boundaries, the hand-off yield and blocking operations.",
   technique="deterministic simulation: seeded schedule + clock-fault search over the real queue with history oracles, tape shrinking and replay"),
}

NOT_APPLICABLE = {
 "C07": "pure left fold of a pairwise function over an action list; no clock, schedule, I/O or fault for a simulator to control (DESIGN.md section 5)",
 "C13": "BuildEndpointPolicyTree + Lookup are pure functions of the declaration slice and the request; no time, concurrency or I/O (DESIGN.md section 5)",
 "C14": "relation between two pure translations (pattern -> regex, trie match); nothing schedulable or faultable (DESIGN.md section 5)",
 "C16": "ObfuscateJSON is a pure recursive function of document and exclusion list (DESIGN.md section 5)",
}

def main():
    checks = []
    for pid in sorted(CHECKS):
        c = CHECKS[pid]
        checks.append({
            "property_id": pid,
            "quick_cmd": c.get("quick", f"./simctl check {pid} --tier quick"),
            "thorough_cmd": c.get("thorough", f"./simctl check {pid} --tier thorough"),
            "evidence_file": f"/verif/evidence/{pid}.json",
            "replay_cmd_template": "./simctl replay {path}",
            "engine": "simctl",
            "level_claimed": {"category": c.get("level", "exploration"), "text": c["text"], "design_ref": c["design_ref"]},
            "level_note": c["note"],
            "technique": c["technique"],
        })
    all_ids = [json.loads(l)["id"] for l in open("/verif/properties.jsonl")]
    na = [{"property_id": p, "reason": NOT_APPLICABLE.get(p, "check not built yet in this round; see DESIGN.md section 4 for the planned simulation")}
          for p in all_ids if p not in CHECKS]
    m = {
        "version": 1,
        "setup_cmd": "./setup.sh",
        "hooks": {
            "guard": "verif (Go build tag)",
            "enable": "simctl copies /repo/proxy/src to a scratch directory, instruments mutex Lock/Unlock sites there (sim/cmd/instrument) and builds the harness with `go1.26.8 test -c -tags verif -modfile <scratch>/go.mod`; hooks live in lunar/toolkit-core/verifhook and compile to no-ops without the tag",
            "baseline_off_cmd": "./baseline_off.sh",
            "source_commits": HOOK_COMMITS,
            "add_only": True,
        },
        "engines": [
            {"name": "simctl", "path": "/verif/sim", "serves_properties": sorted(CHECKS),
             "kind_free_text": "deterministic simulation: testing/synctest bubble per run (fake clock + quiescence), one OS process per run, choice tape from VERIF_SEED, token scheduler at verifhook yield points and instrumented lock sites, fault injection, history oracles, tape shrinking, replay files"},
        ],
        "checks": checks,
        "not_applicable": na,
        "notes": "known findings and fixed defects: /verif/known-findings.json; design: /verif/DESIGN.md",
    }
    json.dump(m, open("/verif/MANIFEST.json", "w"), indent=1)
    print("MANIFEST.json written:", len(checks), "checks,", len(na), "not claimed")

main()
